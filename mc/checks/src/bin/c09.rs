//! C09 — subcommand dispatch follows argv, and global arguments agree at every level.
//!
//! Space: command trees prog -> sa -> sb (+ sibling sx, + external subcommands at the deepest
//! level) x naming variant of the subcommands (name / alias / short flag / long flag / long-flag
//! alias only / short+long) x kind of the global argument (flag, option, option with default, count,
//! append) x defining level (0 or 1) x every chain of length 0..=3 spelled every available way
//! (incl. `-Sp` / `-Spg` clusters that carry the sub-level's own shorts) x every subset of levels at
//! which the global is supplied x local flags per level x external tails. Lines are constructed, so
//! the expected structure is known by construction.

use mccore::report::run_replay;
use mccore::*;
use mcmodel::*;
use serde_json::{json, Value};

const PROP: &str = "C09";

#[derive(Clone, Copy, Debug, PartialEq, Eq)]
enum Naming {
    Name,
    Alias,
    ShortFlag,
    LongFlag,
    LongFlagAliasOnly,
    Both,
    /// infer_subcommands + infer_long_args set on the root only (documented to reach every
    /// descendant): steps spelled by a unique prefix of an alias, local flags by a prefix of their long
    Inferred,
}
const NAMINGS: [Naming; 7] = [Naming::Name, Naming::Alias, Naming::ShortFlag, Naming::LongFlag, Naming::LongFlagAliasOnly, Naming::Both, Naming::Inferred];

#[derive(Clone, Copy, Debug, PartialEq, Eq)]
enum GKind {
    Flag,
    Opt,
    OptDefault,
    Count,
    Append,
}
const GKINDS: [GKind; 5] = [GKind::Flag, GKind::Opt, GKind::OptDefault, GKind::Count, GKind::Append];

#[derive(Clone, Debug)]
struct Cfg {
    naming: Naming,
    gkind: GKind,
    def_level: usize,
    ext: Option<Ext>,
    /// the sibling subcommand is a user-defined `help` (generated help subcommand disabled)
    user_help: bool,
    /// root: error-ignoring + a required option that is never given (the swallowed error is raised
    /// after the subcommands were parsed; chain, locals and globals must be as without it)
    ignored_error: bool,
    /// root: subcommand_precedence_over_arg + a multi-value positional that has taken one value
    /// before the first step
    precedence: bool,
    /// root declares a second global (`hue`) before `g`, and `sa` declares `hue` again itself (same
    /// id); `g` must be inherited all the same
    redeclared: bool,
    /// root declares a second global (`hue`); both globals name the group `gg`, which the root
    /// declares with `multiple(true)`: the two may be given together at every level
    grouped: bool,
}

impl Cfg {
    fn sibling(&self) -> &'static str {
        if self.user_help { "help" } else { "sx" }
    }
    fn name(&self) -> String {
        format!("naming={:?} global={:?}@{} ext={:?}{}", self.naming, self.gkind, self.def_level, self.ext, if self.user_help { " sibling=user-defined help" } else if self.ignored_error { " root error ignored" } else if self.precedence { " precedence over a collecting positional" } else if self.redeclared { " sa re-declares an earlier global" } else if self.grouped { " two globals in one multiple group" } else { "" })
    }
    fn global_arg(&self) -> ArgSpec {
        let mut g = match self.gkind {
            GKind::Flag | GKind::Count => ArgSpec::flag("g", Some('g'), Some("glob")),
            _ => ArgSpec::opt("g", Some('g'), Some("glob")),
        };
        g.action = Some(match self.gkind {
            GKind::Flag => Act::SetTrue,
            GKind::Count => Act::Count,
            GKind::Append => Act::Append,
            _ => Act::Set,
        });
        if self.gkind == GKind::OptDefault {
            g.default = vec!["dflt".into()];
        }
        g.global = true;
        g
    }
    fn decorate(&self, s: &mut CmdSpec, sf: char, lf: &str) {
        match self.naming {
            Naming::Name => {}
            Naming::Alias | Naming::Inferred => s.aliases.push(format!("{}-alias", s.name)),
            Naming::ShortFlag => s.short_flag = Some(sf),
            Naming::LongFlag => s.long_flag = Some(lf.into()),
            Naming::LongFlagAliasOnly => {
                s.short_flag = Some(sf);
                s.long_flag_aliases.push(lf.into());
            }
            Naming::Both => {
                s.short_flag = Some(sf);
                s.long_flag = Some(lf.into());
                s.short_flag_aliases.push(sf.to_ascii_lowercase());
            }
        }
    }
    fn spec(&self) -> CmdSpec {
        let mut root = CmdSpec::new("prog");
        root.args.push(ArgSpec::flag("p0", Some('p'), Some("p0")));
        root.args.push(ArgSpec::flag("q0", Some('q'), Some("q0")));
        // a root flag whose short is a multi-byte character (clusters count flags, not bytes)
        root.args.push(ArgSpec::flag("u0", Some('é'), Some("u0")));
        let mut sa = CmdSpec::new("sa");
        sa.args.push(ArgSpec::flag("p1", Some('p'), Some("p1")));
        sa.args.push(ArgSpec::flag("q1", Some('q'), Some("q1")));
        let mut sb = CmdSpec::new("sb");
        sb.args.push(ArgSpec::flag("p2", Some('p'), Some("p2")));
        sb.args.push(ArgSpec::flag("q2", Some('q'), Some("q2")));
        if let Some(e) = self.ext {
            sb.external = Some(e);
        }
        let mut sx = CmdSpec::new(self.sibling());
        if self.user_help {
            root.set(Setting::DisableHelpSubcommand);
        }
        sx.args.push(ArgSpec::flag("px", Some('p'), None));
        self.decorate(&mut sb, 'B', "sb-flag");
        self.decorate(&mut sa, 'A', "sa-flag");
        self.decorate(&mut sx, 'X', "sx-flag");
        if self.redeclared {
            let mut hue = ArgSpec::opt("hue", None, Some("hue"));
            hue.global = true;
            hue.default = vec!["auto".into()];
            root.args.push(hue.clone());
            hue.default = vec!["always".into()];
            sa.args.push(hue);
        }
        if self.grouped {
            let mut hue = ArgSpec::opt("hue", None, Some("hue"));
            hue.global = true;
            hue.groups.push("gg".into());
            root.args.push(hue);
            let mut g = self.global_arg();
            g.groups.push("gg".into());
            root.args.push(g);
            root.groups.push(GroupSpec { id: "gg".into(), multiple: true, ..Default::default() });
        }
        match self.def_level {
            _ if self.grouped => {}
            0 => root.args.push(self.global_arg()),
            _ => sa.args.push(self.global_arg()),
        }
        sa.subs.push(sb);
        root.subs.push(sa);
        root.subs.push(sx);
        if self.ignored_error {
            root.set(Setting::IgnoreErrors);
            let mut need = ArgSpec::opt("need", None, Some("need"));
            need.required = true;
            root.args.push(need);
        }
        if self.precedence {
            root.set(Setting::SubcommandPrecedenceOverArg);
            let mut files = ArgSpec::pos("files", 1);
            files.num_args = Some((1, None));
            root.args.push(files);
        }
        if self.naming == Naming::Inferred {
            root.set(Setting::InferSubcommands);
            root.set(Setting::InferLongArgs);
        }
        root
    }
    /// spellings of the step into subcommand `name` (level index of the *child*)
    fn spellings(&self, name: &str, sf: char, lf: &str) -> Vec<(String, bool)> {
        // (token, is_short_flag_form)
        let mut v = vec![(name.to_string(), false)];
        match self.naming {
            Naming::Name => {}
            Naming::Alias => v.push((format!("{}-alias", name), false)),
            Naming::Inferred => {
                v.push((format!("{}-alias", name), false));
                v.push((format!("{}-al", name), false));
            }
            Naming::ShortFlag => v.push((format!("-{}", sf), true)),
            Naming::LongFlag => v.push((format!("--{}", lf), false)),
            Naming::LongFlagAliasOnly => {
                v.push((format!("--{}", lf), false));
                v.push((format!("-{}", sf), true));
            }
            Naming::Both => {
                v.push((format!("-{}", sf), true));
                v.push((format!("--{}", lf), false));
                v.push((format!("-{}", sf.to_ascii_lowercase()), true));
            }
        }
        v
    }
}

#[derive(Clone, Debug)]
struct Line {
    argv: Vec<Vec<u8>>,
    chain: Vec<String>,
    /// per level: local flags given (p, q)
    locals: Vec<(bool, bool)>,
    /// per level: global occurrences supplied there (values; empty string for flags)
    globals: Vec<Vec<String>>,
    ext: Option<(String, Vec<Vec<u8>>)>,
    desc: String,
}

fn lines(c: &Cfg, max_chain: usize, thorough: bool) -> Vec<Line> {
    let names = ["sa", "sb"];
    let sfs = ['A', 'B'];
    let lfs = ["sa-flag", "sb-flag"];
    let mut out = vec![];
    let takes = matches!(c.gkind, GKind::Opt | GKind::OptDefault | GKind::Append);
    // per-level content options: (p, q, global count 0/1/2, cluster-with-subcommand-token?)
    #[derive(Clone, Copy)]
    struct Lv {
        p: bool,
        q: bool,
        g: usize,
        clustered: bool,
    }
    let lv_opts = |level: usize, can_cluster: bool| -> Vec<Lv> {
        let mut v = vec![];
        let gmax = if level >= c.def_level { if matches!(c.gkind, GKind::Count | GKind::Append) && thorough { 2 } else { 1 } } else { 0 };
        for p in [false, true] {
            for q in [false, true] {
                for g in 0..=gmax {
                    v.push(Lv { p, q, g, clustered: false });
                    if can_cluster && (p || (g > 0 && !takes)) {
                        v.push(Lv { p, q, g, clustered: true });
                    }
                }
            }
        }
        v
    };
    for k in 0..=max_chain.min(2) {
        // step spellings
        let mut step_choices: Vec<Vec<(String, bool)>> = vec![];
        for s in 0..k {
            step_choices.push(c.spellings(names[s], sfs[s], lfs[s]));
        }
        // cartesian over step spellings
        let mut combos: Vec<Vec<(String, bool)>> = vec![vec![]];
        for ch in &step_choices {
            let mut n = vec![];
            for pre in &combos {
                for x in ch {
                    let mut y = pre.clone();
                    y.push(x.clone());
                    n.push(y);
                }
            }
            combos = n;
        }
        for combo in combos {
            // per level content
            let mut per_level: Vec<Vec<Lv>> = vec![];
            for level in 0..=k {
                let can_cluster = level >= 1 && combo[level - 1].1;
                per_level.push(lv_opts(level, can_cluster));
            }
            let mut idx = vec![0usize; k + 1];
            loop {
                // build line
                let mut argv: Vec<Vec<u8>> = vec![];
                let mut locals = vec![];
                let mut globals: Vec<Vec<String>> = vec![];
                let mut desc = String::new();
                for level in 0..=k {
                    let lv = per_level[level][idx[level]];
                    let mut gvals = vec![];
                    let gval = |n: usize| format!("v{}{}", level, n);
                    let mut tokens: Vec<Vec<u8>> = vec![];
                    let mut step_tok: Option<Vec<u8>> = if level >= 1 { Some(combo[level - 1].0.clone().into_bytes()) } else { None };
                    let mut p_done = false;
                    let mut g_done = 0usize;
                    if lv.clustered {
                        // -S + p + (g when it takes no value)
                        let mut t = step_tok.take().unwrap();
                        if lv.p {
                            t.push(b'p');
                            p_done = true;
                        }
                        if lv.g > 0 && !takes {
                            t.push(b'g');
                            g_done = 1;
                            gvals.push(String::new());
                        }
                        tokens.push(t);
                    } else if let Some(t) = step_tok.take() {
                        tokens.push(t);
                    }
                    if lv.p && !p_done {
                        // `--p` is a unique prefix of the level's `--p<level>` under infer_long_args
                        tokens.push(if c.naming == Naming::Inferred { b"--p".to_vec() } else { b"-p".to_vec() });
                    }
                    // q always in a later, separate short group (exercises the resume logic)
                    let mut qtok: Option<Vec<u8>> = if lv.q { Some(b"-q".to_vec()) } else { None };
                    for n in g_done..lv.g {
                        if takes {
                            let v = gval(n);
                            if n % 2 == 0 {
                                tokens.push(format!("--glob={}", v).into_bytes());
                            } else {
                                tokens.push(b"-g".to_vec());
                                tokens.push(v.clone().into_bytes());
                            }
                            gvals.push(v);
                        } else {
                            // put the flag global into q's cluster when possible
                            if let Some(q) = qtok.as_mut() {
                                q.push(b'g');
                            } else {
                                tokens.push(b"--glob".to_vec());
                            }
                            gvals.push(String::new());
                        }
                    }
                    if let Some(q) = qtok {
                        tokens.push(q);
                    }
                    argv.extend(tokens);
                    if level == 0 && c.precedence {
                        // one value for the collecting positional, right before the first step
                        argv.push(b"f1".to_vec());
                    }
                    locals.push((lv.p, lv.q));
                    globals.push(gvals);
                    desc.push_str(&format!("L{}[p={} q={} g={}{}] ", level, lv.p, lv.q, lv.g, if lv.clustered { " clustered" } else { "" }));
                }
                let chain: Vec<String> = (0..k).map(|s| names[s].to_string()).collect();
                out.push(Line { argv: argv.clone(), chain: chain.clone(), locals: locals.clone(), globals: globals.clone(), ext: None, desc: desc.clone() });
                // external tail at the deepest level
                if k == 2 && c.ext.is_some() {
                    for tail in [vec!["ext"], vec!["ext", "--glob=zz", "-p"], vec!["ext", "--", "sa", ""], vec!["ext", "\u{ff}x"]] {
                        let mut a2 = argv.clone();
                        let t: Vec<Vec<u8>> = tail.iter().map(|s| if *s == "\u{ff}x" { b"\xffx".to_vec() } else { s.as_bytes().to_vec() }).collect();
                        a2.extend(t.iter().cloned());
                        out.push(Line { argv: a2, chain: chain.clone(), locals: locals.clone(), globals: globals.clone(), ext: Some(("ext".into(), t[1..].to_vec())), desc: format!("{} ext{:?}", desc, tail) });
                    }
                }
                // odometer
                let mut l = k as isize;
                loop {
                    if l < 0 {
                        break;
                    }
                    idx[l as usize] += 1;
                    if idx[l as usize] < per_level[l as usize].len() {
                        break;
                    }
                    idx[l as usize] = 0;
                    l -= 1;
                }
                if l < 0 {
                    break;
                }
            }
        }
    }
    // a short flag subcommand that is not the first flag of its group (`-pAq`: root flag p, then
    // subcommand sa, then sa's own q), also nested (`-qApBq`)
    if matches!(c.naming, Naming::ShortFlag | Naming::Both | Naming::LongFlagAliasOnly) {
        let mk = |toks: &[&str], chain: &[&str], locals: Vec<(bool, bool)>, desc: &str| Line {
            argv: toks.iter().map(|t| t.as_bytes().to_vec()).collect(),
            chain: chain.iter().map(|s| s.to_string()).collect(),
            globals: locals.iter().map(|_| vec![]).collect(),
            locals,
            ext: None,
            desc: desc.to_string(),
        };
        out.push(mk(&["-pA"], &["sa"], vec![(true, false), (false, false)], "flag then subcommand flag"));
        out.push(mk(&["-pAq"], &["sa"], vec![(true, false), (false, true)], "flag, subcommand flag, sub-level flag"));
        out.push(mk(&["-qpAp"], &["sa"], vec![(true, true), (true, false)], "two flags, subcommand flag, sub-level flag"));
        out.push(mk(&["-A", "-pBq"], &["sa", "sb"], vec![(false, false), (true, false), (false, true)], "second-level group with leading flag"));
        out.push(mk(&["-qApBq"], &["sa", "sb"], vec![(false, true), (true, false), (false, true)], "one group through two levels"));
        out.push(mk(&["-pAq", "-p"], &["sa"], vec![(true, false), (true, true)], "group then a later group"));
        out.push(mk(&["-éA"], &["sa"], vec![(false, false), (false, false)], "multi-byte flag then subcommand flag"));
        out.push(mk(&["-éAq"], &["sa"], vec![(false, false), (false, true)], "multi-byte flag, subcommand flag, sub-level flag"));
        out.push(mk(&["-éApq"], &["sa"], vec![(false, false), (true, true)], "multi-byte flag, subcommand flag, two sub-level flags"));
        out.push(mk(&["-péApBq"], &["sa", "sb"], vec![(true, false), (true, false), (false, true)], "multi-byte flag in a group through two levels"));
    }
    if c.grouped {
        // both members of the group together, at every level
        let (gtok, gval) = if takes { ("--glob=vs".to_string(), "vs".to_string()) } else { ("--glob".to_string(), String::new()) };
        let mk = |toks: Vec<&str>, chain: Vec<&str>, glevel: usize| {
            let mut globals: Vec<Vec<String>> = (0..=chain.len()).map(|_| vec![]).collect();
            globals[glevel] = vec![gval.clone()];
            Line { argv: toks.iter().map(|t| t.as_bytes().to_vec()).collect(), chain: chain.iter().map(|s| s.to_string()).collect(), locals: (0..=chain.len()).map(|_| (false, false)).collect(), globals, ext: None, desc: "both grouped globals".into() }
        };
        out.push(mk(vec!["--hue=k", &gtok], vec![], 0));
        out.push(mk(vec!["sa", "--hue=k", &gtok], vec!["sa"], 1));
        out.push(mk(vec!["sa", &gtok, "--hue=k"], vec!["sa"], 1));
        out.push(mk(vec!["sa", "sb", "--hue=k", &gtok], vec!["sa", "sb"], 2));
        out.push(mk(vec!["--hue=k", "sa", &gtok], vec!["sa"], 1));
        out.push(mk(vec![&gtok, "sa", "sb", "--hue=k"], vec!["sa", "sb"], 0));
    }
    // sibling dispatch
    for (tok, _) in c.spellings(c.sibling(), 'X', "sx-flag") {
        out.push(Line { argv: vec![tok.clone().into_bytes()], chain: vec![c.sibling().into()], locals: vec![(false, false), (false, false)], globals: vec![vec![], vec![]], ext: None, desc: "sibling".into() });
        if c.def_level == 0 {
            // the global supplied inside the sibling
            let (gtok, gval) = if takes { ("--glob=vs".to_string(), "vs".to_string()) } else { ("--glob".to_string(), String::new()) };
            out.push(Line { argv: vec![tok.clone().into_bytes(), gtok.clone().into_bytes()], chain: vec![c.sibling().into()], locals: vec![(false, false), (false, false)], globals: vec![vec![], vec![gval.clone()]], ext: None, desc: "sibling with the global".into() });
            out.push(Line { argv: vec![gtok.into_bytes(), tok.into_bytes()], chain: vec![c.sibling().into()], locals: vec![(false, false), (false, false)], globals: vec![vec![gval], vec![]], ext: None, desc: "global, then sibling".into() });
        }
    }
    out
}

fn level_obs<'a>(ob: &'a Obs, d: usize) -> Option<&'a Obs> {
    ob.at_depth(d)
}

fn judge(c: &Cfg, spec: &CmdSpec, cmd: &clap::Command, ln: &Line, h: &mut Hist) -> Vec<(String, String)> {
    let mut bad = vec![];
    let out = parse(cmd, spec, &ln.argv);
    let ob = match out {
        Outcome::Ok(o) => o,
        Outcome::Err(e) => {
            // the only legitimate rejections: a non-overriding Set global given twice at one level
            // (never constructed), or a non-UTF-8 external word into a String external parser
            let non_utf8_ext = ln.ext.as_ref().map(|e| e.1.iter().any(|t| std::str::from_utf8(t).is_err())).unwrap_or(false) && c.ext == Some(Ext::Str);
            if non_utf8_ext && e.kind == "InvalidUtf8" {
                h.bump("err/invalid-utf8-external (justified)");
                return bad;
            }
            h.bump(&format!("err/{}", e.kind));
            bad.push((format!("a constructed valid line is rejected ({})", e.kind), e.rendered.lines().next().unwrap_or("").to_string()));
            return bad;
        }
    };
    h.bump("ok");
    h.nontrivial += 1;
    // chain
    let mut got_chain = ob.chain();
    if ln.ext.is_some() {
        let last = got_chain.pop();
        if last.as_deref() != ln.ext.as_ref().map(|e| e.0.as_str()) {
            bad.push(("external subcommand name is not the unknown word".into(), format!("got {:?}", last)));
        }
        let mut cur = &ob;
        while let Some((_, s)) = &cur.sub {
            cur = s;
        }
        if cur.ext.as_ref() != ln.ext.as_ref().map(|e| &e.1) {
            bad.push((
                "external subcommand arguments are not preserved verbatim".into(),
                format!("got {:?} want {:?}", cur.ext.as_ref().map(|v| v.iter().map(|x| show(x)).collect::<Vec<_>>()), ln.ext.as_ref().map(|e| e.1.iter().map(|x| show(x)).collect::<Vec<_>>())),
            ));
        }
    }
    if got_chain != ln.chain {
        bad.push(("reported subcommand chain differs from the chain named on the line".into(), format!("got {:?} want {:?}", got_chain, ln.chain)));
        return bad;
    }
    // locals per level
    for (level, (p, q)) in ln.locals.iter().enumerate() {
        let Some(lo) = level_obs(&ob, level) else { continue };
        for (id, want) in [(format!("p{}", level), *p), (format!("q{}", level), *q)] {
            let got = lo.args.get(&id).map(|a| a.source == Some(Src::Cli)).unwrap_or(false);
            if got != want {
                bad.push((
                    "a level's own flag is not attributed to the level it was given at".into(),
                    format!("{} at level {}: reported given={} but line has given={}", id, level, got, want),
                ));
            }
        }
    }
    // the sibling is not below the level that defines a level-1 global
    if c.def_level == 1 && ln.chain.first().map(|s| s == c.sibling()).unwrap_or(false) {
        return bad;
    }
    // global
    let k = ln.chain.len();
    let supplied: Vec<&String> = ln.globals.iter().flatten().collect();
    let mut views: Vec<(usize, Option<(Src, Vec<Vec<u8>>)>)> = vec![];
    for level in c.def_level..=k {
        if let Some(lo) = level_obs(&ob, level) {
            let v = lo.args.get("g").and_then(|a| if a.present { Some((a.source.unwrap_or(Src::Default), a.flat())) } else { None });
            views.push((level, v));
        }
    }
    for w in views.windows(2) {
        if w[0].1 != w[1].1 {
            bad.push((
                "global argument differs between levels of the chain".into(),
                format!("level {}: {:?}, level {}: {:?}", w[0].0, w[0].1.as_ref().map(|x| (x.0, x.1.iter().map(|v| show(v)).collect::<Vec<_>>())), w[1].0, w[1].1.as_ref().map(|x| (x.0, x.1.iter().map(|v| show(v)).collect::<Vec<_>>()))),
            ));
            break;
        }
    }
    if let Some((_, v)) = views.first() {
        if !supplied.is_empty() {
            match v {
                Some((Src::Cli, vals)) => {
                    // value equals one of the supplied occurrences (one level's worth)
                    let per_level_ok = ln.globals.iter().filter(|g| !g.is_empty()).any(|g| match c.gkind {
                        GKind::Flag => vals == &vec![b"true".to_vec()],
                        GKind::Count => vals == &vec![g.len().to_string().into_bytes()],
                        GKind::Append => vals == &g.iter().map(|s| s.clone().into_bytes()).collect::<Vec<_>>(),
                        _ => vals.len() == 1 && g.iter().any(|s| s.as_bytes() == vals[0].as_slice()),
                    });
                    if !per_level_ok {
                        bad.push(("global value is none of the supplied occurrences".into(), format!("got {:?}, supplied per level {:?}", vals.iter().map(|v| show(v)).collect::<Vec<_>>(), ln.globals)));
                    }
                }
                other => bad.push(("an explicitly supplied global is not reported with command-line source".into(), format!("got {:?}", other.as_ref().map(|x| x.0)))),
            }
        } else {
            match (c.gkind, v) {
                (GKind::OptDefault, Some((Src::Default, vals))) if vals == &vec![b"dflt".to_vec()] => {}
                (GKind::OptDefault, other) => bad.push(("defaulted global not reported as default".into(), format!("{:?}", other.as_ref().map(|x| x.0)))),
                (GKind::Opt | GKind::Append, None) => {}
                (GKind::Flag | GKind::Count, Some((Src::Default, _))) => {}
                (_, other) => bad.push(("a global that was not supplied reports a value".into(), format!("{:?}", other.as_ref().map(|x| (x.0, x.1.iter().map(|v| show(v)).collect::<Vec<_>>()))))),
            }
        }
    }
    bad
}

fn cfgs() -> Vec<Cfg> {
    let mut v = vec![];
    for naming in NAMINGS {
        for gkind in GKINDS {
            for def_level in [0usize, 1] {
                for ext in [None, Some(Ext::Str), Some(Ext::Os)] {
                    v.push(Cfg { naming, gkind, def_level, ext, user_help: false, ignored_error: false, precedence: false, redeclared: false, grouped: false });
                    if naming == Naming::Name && ext.is_none() {
                        v.push(Cfg { naming, gkind, def_level, ext, user_help: true, ignored_error: false, precedence: false, redeclared: false, grouped: false });
                        v.push(Cfg { naming, gkind, def_level, ext, user_help: false, ignored_error: true, precedence: false, redeclared: false, grouped: false });
                        v.push(Cfg { naming, gkind, def_level, ext, user_help: false, ignored_error: false, precedence: true, redeclared: false, grouped: false });
                        if def_level == 0 {
                            v.push(Cfg { naming, gkind, def_level, ext, user_help: false, ignored_error: false, precedence: false, redeclared: true, grouped: false });
                            v.push(Cfg { naming, gkind, def_level, ext, user_help: false, ignored_error: false, precedence: false, redeclared: false, grouped: true });
                        }
                    }
                }
            }
        }
    }
    v
}

fn cfg_json(c: &Cfg) -> Value {
    json!({"naming": format!("{:?}", c.naming), "gkind": format!("{:?}", c.gkind), "def_level": c.def_level, "ext": c.ext.map(|e| format!("{:?}", e)), "user_help": c.user_help, "ignored_error": c.ignored_error, "precedence": c.precedence, "redeclared": c.redeclared, "grouped": c.grouped})
}
fn cfg_from(v: &Value) -> Option<Cfg> {
    Some(Cfg {
        naming: NAMINGS.into_iter().find(|n| format!("{:?}", n) == v["naming"].as_str().unwrap_or(""))?,
        gkind: GKINDS.into_iter().find(|n| format!("{:?}", n) == v["gkind"].as_str().unwrap_or(""))?,
        def_level: v["def_level"].as_u64()? as usize,
        ext: match v["ext"].as_str() {
            Some("Str") => Some(Ext::Str),
            Some("Os") => Some(Ext::Os),
            _ => None,
        },
        user_help: v["user_help"].as_bool().unwrap_or(false),
        ignored_error: v["ignored_error"].as_bool().unwrap_or(false),
        precedence: v["precedence"].as_bool().unwrap_or(false),
        redeclared: v["redeclared"].as_bool().unwrap_or(false),
        grouped: v["grouped"].as_bool().unwrap_or(false),
    })
}

fn recheck(case: &Value) -> Vec<Violation> {
    let Some(c) = cfg_from(&case["cfg"]) else { return vec![] };
    let spec = c.spec();
    let Ok(cmd) = build_valid(&spec) else { return vec![] };
    let want_argv = unhex_argv(&case["argv_hex"]);
    let mut out = vec![];
    let mut h = Hist::new();
    for ln in lines(&c, 2, true) {
        if ln.argv == want_argv {
            match catch(|| judge(&c, &spec, &cmd, &ln, &mut h)) {
                Ok(b) => out.extend(b.into_iter().map(|(cc, w)| Violation { cause: cc, order: (0, 0), what: w, case: case.clone() })),
                Err(p) => out.push(Violation { cause: p.key(), order: (0, 0), what: p.show(), case: case.clone() }),
            }
            break;
        }
    }
    out
}

fn main() {
    let cli = Cli::parse();
    install_silent_hook();
    fix_env();
    let tier = match &cli.mode {
        Mode::Replay(p) => run_replay(PROP, p, &recheck),
        Mode::Explore(t) => *t,
    };
    let rep = Report::new(PROP, tier, cli.seed);
    let cs = cfgs();
    rep.rule("block = one tree configuration (naming variant x global kind x defining level x external parser); case = one constructed line: chain of length 0..=2 below the root spelled every available way, per level every combination of two local flags and 0..=1 (thorough: 0..=2 for count/append) occurrences of the global, short flag subcommands also as clusters carrying the level's own shorts, the second local flag always in a later short group; plus external tails. Expected chain/attribution/global agreement known by construction. non-trivial = lines that parse (all are meant to)");
    rep.set("bounds", json!({"configurations": cs.len(), "max_depth_below_root": 2, "namings": NAMINGS.len(), "global_kinds": GKINDS.len()}));
    rep.assume("when a global is supplied at several levels the property only pins that all levels agree and report one level's occurrences with command-line source; which level wins is not asserted");

    let thorough = tier == Tier::Thorough;
    par_blocks(cs.len(), |bi, _| {
        let c = &cs[bi];
        let spec = c.spec();
        let cmd = match build_valid(&spec) {
            Ok(x) => x,
            Err(p) => {
                rep.violation(Violation { cause: format!("tree configuration rejected by the validity gate: {}", p.key()), order: (bi as u64, 0), what: p.show(), case: json!({"cfg": cfg_json(c), "argv_hex": []}) });
                return;
            }
        };
        let mut h = Hist::new();
        let ls = lines(c, 2, thorough);
        for (li, ln) in ls.iter().enumerate() {
            h.evaluations += 1;
            h.states += 1;
            h.transitions += 1;
            h.validated += 1;
            let order = (bi as u64, li as u64);
            let mk = || json!({"cfg": cfg_json(c), "spec": spec.to_json(), "argv_hex": hex_argv(&ln.argv), "argv_shown": show_argv(&ln.argv), "line": ln.desc});
            match catch(|| judge(c, &spec, &cmd, ln, &mut h)) {
                Ok(bad) => {
                    for (cause, w) in bad {
                        rep.violation(Violation { cause: cause.clone(), order, what: format!("{} argv {:?}: {} ({})", c.name(), ln.argv.iter().map(|a| show(a)).collect::<Vec<_>>(), cause, w), case: mk() });
                    }
                }
                Err(p) => rep.violation(Violation { cause: p.key(), order, what: format!("{} argv {:?}: {}", c.name(), ln.argv.iter().map(|a| show(a)).collect::<Vec<_>>(), p.show()), case: mk() }),
            }
        }
        if bi == 0 || bi == cs.len() / 2 || bi == cs.len() - 1 {
            rep.sample(json!({"config": c.name(), "lines": ls.len(), "last_line": show_argv(&ls.last().unwrap().argv)}));
        }
        rep.merge(&h);
    });
    rep.finish(&recheck);
}
