//! C03 — a successful parse satisfies every declared relation between arguments.
//!
//! Space: relation graphs with <= k edges from a ~75-edge catalogue over flags a,b,c,d, option o
//! and groups g1,g2 (graphs rejected by clap's own validity gate are skipped) x every sequence of
//! distinct tokens from {--a,--b,--c,--d,--o=x,--o=y,sub} of length <= n.
//! Oracle: whenever the parse succeeds, the independent relation evaluator R2 applied to the
//! explicit-presence set (source != default) reports no broken rule that lacks a documented
//! exemption. Runs under the supervisor so that a non-terminating parse is a violation, not a hang.

use mccore::report::run_replay;
use mccore::sup::{self, Journal};
use mccore::*;
use mcmodel::r2;
use mcmodel::rel;
use mcmodel::*;
use serde_json::{json, Value};

const PROP: &str = "C03";

/// Relations of one level judged on that level's matches; then the subcommand's level, with its
/// own spec (a rule or a negating setting of one level says nothing about another).
fn judge_level(spec: &CmdSpec, ob: &Obs, depth: usize, h: &mut Hist, bad: &mut Vec<(String, String)>) {
    let ex = r2::explicit_set(spec, ob);
    if depth > 0 && !ex.is_empty() {
        h.bump("ok/nested-level-with-explicit-args");
    }
    let at = if depth == 0 { String::new() } else { format!(" (at subcommand level {})", depth) };
    for b in r2::evaluate(spec, ob) {
        bad.push((
            format!("successful parse breaks a declared relation{}: {}", if depth == 0 { "" } else { " of a subcommand level" }, b.class()),
            format!("{:?}{}; explicit {:?}; matches: {}", b, at, ex, ob.show()),
        ));
    }
    if spec.has(Setting::SubcommandRequired) && ob.sub.is_none() {
        bad.push(("successful parse lacks the required subcommand".to_string(), format!("level {}; matches: {}", depth, ob.show())));
    }
    if depth > 0 {
        for g in &spec.groups {
            let g_present = ob.args.get(&g.id).map(|a| a.present && a.explicit()).unwrap_or(false);
            let member = r2::members(spec, &g.id).iter().any(|m| ex.contains(*m));
            if g_present && !member {
                bad.push(("a group is reported present although none of its members is".to_string(), format!("group {}{}; explicit {:?}", g.id, at, ex)));
            }
        }
    }
    if let Some((name, so)) = &ob.sub {
        if let Some(ss) = spec.sub(name) {
            judge_level(ss, so, depth + 1, h, bad);
        }
    }
}

fn judge(spec: &CmdSpec, cmd: &clap::Command, argv: &[Vec<u8>], h: &mut Hist) -> Vec<(String, String)> {
    match parse(cmd, spec, argv) {
        Outcome::Ok(ob) => {
            let ex = r2::explicit_set(spec, &ob);
            if ex.len() >= 2 {
                h.nontrivial += 1;
            }
            h.bump(&format!("ok/{}-explicit", ex.len().min(4)));
            let mut bad: Vec<(String, String)> = vec![];
            judge_level(spec, &ob, 0, h, &mut bad);
            // a group is present exactly when one of its members is: a group record without any
            // explicitly present member would satisfy or trigger relations on its own
            for g in &spec.groups {
                let g_present = ob.args.get(&g.id).map(|a| a.present && a.explicit()).unwrap_or(false);
                let member = r2::members(spec, &g.id).iter().any(|m| ex.contains(*m));
                if g_present && !member {
                    bad.push((
                        "a group is reported present although none of its members is".to_string(),
                        format!("group {}; explicit {:?}; matches: {}", g.id, ex, ob.show()),
                    ));
                }
            }
            bad
        }
        Outcome::Err(e) => {
            h.bump(&format!("err/{}", e.kind));
            vec![]
        }
    }
}

fn recheck(case: &Value) -> Vec<Violation> {
    let Ok(spec) = CmdSpec::from_json(&case["spec"]) else { return vec![] };
    let argv = unhex_argv(&case["argv_hex"]);
    let Ok(cmd) = build_valid(&spec) else { return vec![] };
    let mut h = Hist::new();
    match catch(|| judge(&spec, &cmd, &argv, &mut h)) {
        Ok(b) => b.into_iter().map(|(c, w)| Violation { cause: c, order: (0, 0), what: w, case: case.clone() }).collect(),
        Err(p) => vec![Violation { cause: p.key(), order: (0, 0), what: p.show(), case: case.clone() }],
    }
}

fn main() {
    let cli = Cli::parse();
    install_silent_hook();
    fix_env();
    let tier = match &cli.mode {
        Mode::Replay(p) => run_replay(PROP, p, &recheck),
        Mode::Explore(t) => *t,
    };
    sup::supervise(PROP, &cli);
    let journal: &'static Journal = Box::leak(Box::new(if std::env::var_os("CLAPMC_CHILD").is_some() {
        Journal::create(PROP)
    } else {
        Journal::dummy()
    }));
    let single = sup::single_case(&cli);
    if single.is_none() {
        journal.start_watchdog("C03");
    }
    let rep = Report::new(PROP, tier, cli.seed);
    let k = tier.pick(3usize, 4usize);
    // argv length per edge count
    // argv length by edge count; 3-edge graphs get the longer lines in the quick tier only when
    // they contain an override edge (removal of earlier occurrences needs three tokens to matter)
    let len_for_graph = |names: &[String]| -> usize {
        let edges = names.len();
        let has_override = names.iter().any(|n| n.contains("overrides_with"));
        match tier {
            Tier::Quick => if edges <= 2 { 4 } else if has_override { 3 } else { 2 },
            Tier::Thorough => if edges <= 3 { 4 } else { 2 },
        }
    };
    let len_for = |edges: usize| -> usize {
        match tier {
            Tier::Quick => if edges <= 2 { 4 } else { 2 },
            Tier::Thorough => if edges <= 3 { 4 } else { 2 },
        }
    };
    let mut graphs = rel::graphs(k);
    let flat_graphs = graphs.len();
    // nested family: three levels with relations and negating settings at every level, lines of
    // up to 5 distinct tokens; appended as further blocks
    let nested = rel::nested_graphs(tier.pick(3usize, 5usize));
    let nested_argvs: Vec<Vec<Vec<u8>>> = rel::nested_argvs(tier.pick(5usize, 6usize));
    graphs.extend(nested);
    let argv_by_len: Vec<Vec<Vec<Vec<u8>>>> = (0..=4).map(rel::argvs).collect();
    rep.rule("block = one relation graph (set of <= k catalogue edges) accepted by clap's validity gate; case = one sequence of distinct tokens from {--a,--b,--c,--d,--o=x,--o=y,sub}; on every successful parse the relation evaluator R2 is applied to the explicit-presence set of every level of the matches (each level judged by its own rules and its own negating settings). A second family nests three levels prog -> sub -> deep with relations and negating settings at each level. non-trivial = successful parses with >= 2 explicitly present arguments");
    rep.set("bounds", json!({"max_edges": k, "catalogue_edges": rel::catalogue().len(), "argv_len_by_edges": (0..=k).map(|e| len_for(e)).collect::<Vec<_>>(), "graphs_enumerated": flat_graphs, "nested_family": {"edges": rel::nested_catalogue().iter().map(|e| e.name.clone()).collect::<Vec<_>>(), "graphs": graphs.len() - flat_graphs, "tokens": rel::NESTED_TOKENS, "lines_per_graph": nested_argvs.len()}}));
    rep.assume("one-directional: clap being stricter than the documentation is not this property's business");
    rep.assume("a requirement on a group is excused when a present argument conflicts with the group or with any member (lenient reading; see DESIGN §3.6)");
    rep.assume("trusted: relation evaluator mc/model/src/r2.rs written from the documentation of Arg/ArgGroup");

    if let Some((b, c)) = single {
        let (names, spec) = &graphs[b as usize];
        let Ok(cmd) = build_valid(spec) else { std::process::exit(0) };
        let argv = if (b as usize) < flat_graphs { &argv_by_len[len_for_graph(names)][c as usize] } else { &nested_argvs[c as usize] };
        sup::describe_case(PROP, &json!({"edges": names, "spec": spec.to_json(), "argv_hex": hex_argv(argv), "argv_shown": show_argv(argv)}));
        let mut h = Hist::new();
        let bad = judge(spec, &cmd, argv, &mut h);
        std::process::exit(if bad.is_empty() { 0 } else { 1 });
    }

    let rejected = std::sync::atomic::AtomicU64::new(0);
    par_blocks(graphs.len(), |bi, tid| {
        let (names, spec) = &graphs[bi];
        journal.begin(tid, bi as u64, u64::MAX);
        let cmd = match build_valid(spec) {
            Ok(c) => c,
            Err(_) => {
                rejected.fetch_add(1, std::sync::atomic::Ordering::Relaxed);
                journal.end(tid);
                return;
            }
        };
        let mut h = Hist::new();
        let argvs = if bi < flat_graphs { &argv_by_len[len_for_graph(names)] } else { &nested_argvs };
        for (ci, argv) in argvs.iter().enumerate() {
            journal.begin(tid, bi as u64, ci as u64);
            h.evaluations += 1;
            h.states += 1;
            h.validated += 1;
            if !argv.is_empty() {
                h.transitions += 1;
            }
            let mk = || json!({"edges": names, "spec": spec.to_json(), "argv_hex": hex_argv(argv), "argv_shown": show_argv(argv)});
            let order = ((names.len() as u64) << 32 | bi as u64, ci as u64);
            match catch(|| judge(spec, &cmd, argv, &mut h)) {
                Ok(bad) => {
                    for (c, w) in bad {
                        rep.violation(Violation {
                            cause: c.clone(),
                            order,
                            what: format!("edges {:?} argv {:?}: {}", names, argv.iter().map(|a| show(a)).collect::<Vec<_>>(), w),
                            case: mk(),
                        });
                    }
                }
                Err(p) => rep.violation(Violation {
                    cause: p.key(),
                    order,
                    what: format!("edges {:?} argv {:?}: {}", names, argv.iter().map(|a| show(a)).collect::<Vec<_>>(), p.show()),
                    case: mk(),
                }),
            }
        }
        journal.end(tid);
        if bi == 1 || bi == graphs.len() / 2 || bi == graphs.len() - 1 {
            rep.sample(json!({"edges": names, "argv_count": argvs.len(), "last_argv": show_argv(argvs.last().unwrap())}));
        }
        rep.merge(&h);
    });
    rep.set("graphs_rejected_by_validity_gate", json!(rejected.load(std::sync::atomic::Ordering::Relaxed)));
    rep.finish(&recheck);
}
