//! C02 — every argv token is attributed exactly once, per the documented grammar.
//!
//! Space: conventional-class configurations (<= N argument templates x <= F features) x every argv
//! in A(cfg)^{<=L}. Oracle (on every successful parse): the documented-grammar reader R1 must not
//! reject the line; when it accepts, per-argument raw occurrences equal the argv substrings it
//! attributes (grouped per occurrence, split only at the declared delimiter), nothing is attributed
//! to arguments that do not occur, indices are distinct and reproduce argv order.

use mccore::report::run_replay;
use mccore::*;
use mcmodel::conv;
use mcmodel::r1;
use mcmodel::*;
use serde_json::{json, Value};

const PROP: &str = "C02";

fn judge(spec: &CmdSpec, cmd: &clap::Command, argv: &[Vec<u8>], h: &mut Hist) -> Vec<(String, String)> {
    let out = parse(cmd, spec, argv);
    let rd = r1::read(spec, argv);
    match out {
        Outcome::Ok(ob) => {
            if let Some(u) = rd.unspecified {
                h.bump(&format!("ok/unspecified: {}", u));
                return vec![];
            }
            if !rd.broken.is_empty() {
                h.bump("ok/reader-rejects");
                return vec![(
                    format!("parse succeeds on a line the documented grammar rejects ({:?})", rd.broken),
                    format!("matches: {}", ob.show()),
                )];
            }
            h.bump("ok/compared");
            h.nontrivial += 1;
            let d = r1::compare(spec, &rd.level, &ob);
            d.into_iter().map(|(c, w)| (c, format!("{} — matches: {}", w, ob.show()))).collect()
        }
        Outcome::Err(e) => {
            if rd.unspecified.is_some() {
                h.bump("err/unspecified");
            } else if rd.broken.is_empty() {
                // C10's business; counted here so the evidence shows how often it happens
                h.bump(&format!("err/reader-accepts:{}", e.kind));
            } else {
                h.bump("err/reader-rejects");
            }
            vec![]
        }
    }
}

fn recheck(case: &Value) -> Vec<Violation> {
    let Ok(spec) = CmdSpec::from_json(&case["spec"]) else { return vec![] };
    let argv = unhex_argv(&case["argv_hex"]);
    let Ok(cmd) = build_valid(&spec) else { return vec![] };
    let mut h = Hist::new();
    match catch(|| judge(&spec, &cmd, &argv, &mut h)) {
        Ok(b) => b.into_iter().map(|(c, w)| Violation { cause: c, order: (0, 0), what: w, case: case.clone() }).collect(),
        Err(p) => vec![Violation { cause: p.key(), order: (0, 0), what: p.show(), case: case.clone() }],
    }
}

fn main() {
    let cli = Cli::parse();
    install_silent_hook();
    fix_env();
    let tier = match &cli.mode {
        Mode::Replay(p) => run_replay(PROP, p, &recheck),
        Mode::Explore(t) => *t,
    };
    let rep = Report::new(PROP, tier, cli.seed);
    // (max_args, max_feats, L)
    let plan: Vec<(usize, usize, usize)> = match tier {
        Tier::Quick => vec![(2, 1, 3), (3, 0, 2), (1, 1, 4)],
        Tier::Thorough => vec![(3, 2, 3), (2, 1, 4)],
    };
    rep.rule("block = one conventional-class configuration; case = one argv from the prefix tree A(cfg)^{<=L}; the real parse is compared with the documented-grammar reader R1 in lock-step. non-trivial = successful parses whose reading R1 accepts (attribution, grouping and index discipline actually compared). Executions the documentation does not pin (`unspecified`) are counted and excluded");
    rep.set("bounds", json!({"plan_(max_templates,max_features,max_argv_len)": plan, "templates": conv::templates().iter().map(|t| t.0).collect::<Vec<_>>(), "features": format!("{:?}", conv::FEATS)}));
    rep.assume("conventional class only: unique shorts/longs, Set/Append/SetTrue/SetFalse/Count, num_args in {1,2,0..=1+require_equals,1..=2,1..}, optional delimiter, positionals in index order (last may be multi), aliases, inference, one subcommand; hyphen values, negative numbers, trailing_var_arg and terminators are excluded here (C05/C01 cover them)");
    rep.assume("trusted: the documented-grammar reader mc/model/src/r1.rs; lines it calls unspecified are not compared");

    let mut blocks: Vec<(conv::Conv, usize)> = vec![];
    let mut seen = std::collections::HashSet::new();
    for (na, nf, l) in &plan {
        for c in conv::configs(*na, *nf) {
            let key = (c.name.clone(), *l);
            if seen.contains(&c.name) {
                // same configuration already scheduled with some L; keep the larger L
                if let Some(b) = blocks.iter_mut().find(|b| b.0.name == c.name) {
                    b.1 = b.1.max(*l);
                }
                continue;
            }
            seen.insert(key.0);
            blocks.push((c, *l));
        }
    }
    let hyph_l = tier.pick(4usize, 5usize);
    for c in conv::hyphen_configs() {
        blocks.push((c, hyph_l));
    }
    // self-test
    {
        let c = &blocks[0];
        let cmd = build_valid(&c.0.spec).unwrap_or_else(|p| rep.machinery(&format!("empty conventional config rejected: {}", p.show())));
        let a = parse(&cmd, &c.0.spec, &[b"v".to_vec()]);
        let b = parse(&cmd, &c.0.spec, &[b"v".to_vec()]);
        if a != b {
            rep.machinery("self-test: nondeterministic parse");
        }
    }
    let rejected = std::sync::atomic::AtomicU64::new(0);
    par_blocks(blocks.len(), |bi, _| {
        let (cv, l) = &blocks[bi];
        let cmd = match build_valid(&cv.spec) {
            Ok(c) => c,
            Err(_) => {
                rejected.fetch_add(1, std::sync::atomic::Ordering::Relaxed);
                return;
            }
        };
        let nested = cv.name.starts_with("nested:");
        let alpha = if nested { conv::nested_alphabet() } else if cv.name.starts_with("values:") { conv::values_alphabet() } else if cv.name.starts_with("suggest:") { conv::suggest_alphabet() } else if cv.name.starts_with("defer:") { conv::defer_alphabet() } else if cv.name.starts_with("posalias:") { conv::posalias_alphabet() } else if cv.name.contains(':') { conv::hyphen_alphabet() } else { conv::alphabet(&cv.spec) };
        let mut h = Hist::new();
        let mut argv: Vec<Vec<u8>> = vec![];
        let mut idx = 0u64;
        for_each_seq(alpha.len(), *l, |s| {
            argv.clear();
            if nested {
                // the two steps down are fixed; the enumerated tokens are read two levels below the root
                argv.push(b"sub".to_vec());
                argv.push(b"deep".to_vec());
            }
            argv.extend(s.iter().map(|i| alpha[*i].clone()));
            h.evaluations += 1;
            h.states += 1;
            h.validated += 1;
            if !argv.is_empty() {
                h.transitions += 1;
            }
            let order = (((cv.n_args + cv.n_feats) as u64) << 32 | bi as u64, idx);
            let mk = |argv: &[Vec<u8>]| json!({"config": cv.name, "spec": cv.spec.to_json(), "argv_hex": hex_argv(argv), "argv_shown": show_argv(argv)});
            match catch(|| judge(&cv.spec, &cmd, &argv, &mut h)) {
                Ok(bad) => {
                    for (c, w) in bad {
                        rep.violation(Violation {
                            cause: c.clone(),
                            order,
                            what: format!("config {} argv {:?}: {} ({})", cv.name, argv.iter().map(|a| show(a)).collect::<Vec<_>>(), c, w),
                            case: mk(&argv),
                        });
                    }
                }
                Err(p) => rep.violation(Violation {
                    cause: p.key(),
                    order,
                    what: format!("config {} argv {:?}: {}", cv.name, argv.iter().map(|a| show(a)).collect::<Vec<_>>(), p.show()),
                    case: mk(&argv),
                }),
            }
            idx += 1;
        });
        if bi == 1 || bi == blocks.len() / 2 || bi == blocks.len() - 1 {
            rep.sample(json!({"config": cv.name, "alphabet": alpha.iter().map(|a| show(a)).collect::<Vec<_>>(), "max_argv_len": l, "last_argv": show_argv(&argv)}));
        }
        rep.merge(&h);
    });
    rep.set("configurations", json!({"enumerated": blocks.len(), "rejected_by_validity_gate": rejected.load(std::sync::atomic::Ordering::Relaxed)}));
    rep.finish(&recheck);
}
