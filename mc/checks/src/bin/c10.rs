//! C10 — rejections are justified, correctly classified, and carry the CLI exit contract.
//!
//! Part 1 (grammar faults): conventional + hyphen-value configurations x argv prefix tree (which
//! contains every fault-free line up to the length bound and every single-token mutation of it:
//! unknown long/short/word inserted, value dropped/added, `=` dropped, help/version inserted, ...).
//! The documented-grammar reader R1 gives the set of broken rule classes: none broken => the parse
//! must succeed; rejected => the error kind must lie in the class of a rule R1 found broken.
//! Part 2 (relation faults): relation graphs x token orderings; the explicit-presence set is
//! derived from the line itself and judged by the relation evaluator R2 without conflict exemptions (the most demanding reading):
//! nothing broken => Ok; ArgumentConflict / MissingRequiredArgument => R2 finds such a rule broken.
//! Every error seen anywhere: stream/exit-code contract and suggestions naming defined things only.

use mccore::report::run_replay;
use mccore::*;
use mcmodel::r1::{self, Rule};
use mcmodel::r2::{self, Broken};
use mcmodel::*;
use mcmodel::{conv, rel};
use serde_json::{json, Value};
use std::collections::BTreeSet;

const PROP: &str = "C10";

fn allowed_kinds(r: Rule) -> &'static [&'static str] {
    match r {
        Rule::Unknown => &["UnknownArgument", "InvalidSubcommand"],
        Rule::Count => &["TooManyValues", "TooFewValues", "WrongNumberOfValues", "InvalidValue", "UnknownArgument"],
        Rule::NoEquals => &["NoEquals"],
        Rule::Repeat => &["ArgumentConflict"],
        Rule::Value => &["InvalidUtf8", "InvalidValue", "ValueValidation"],
        Rule::Help => &["DisplayHelp"],
        Rule::Version => &["DisplayVersion"],
        Rule::Missing => &["MissingRequiredArgument"],
    }
}

fn all_names(spec: &CmdSpec, longs: &mut BTreeSet<String>, shorts: &mut BTreeSet<char>, subs: &mut BTreeSet<String>, values: &mut BTreeSet<String>, ids: &mut BTreeSet<String>) {
    for a in &spec.args {
        ids.insert(a.id.clone());
        for l in a.long.iter().chain(a.aliases.iter()).chain(a.visible_aliases.iter()) {
            longs.insert(l.clone());
        }
        for s in a.short.iter().chain(a.short_aliases.iter()).chain(a.visible_short_aliases.iter()) {
            shorts.insert(*s);
        }
        if let Vp::Pv(pvs) = &a.parser {
            for p in pvs {
                values.insert(p.name.clone());
            }
        }
        for v in &a.value_names {
            ids.insert(v.clone());
        }
    }
    for s in &spec.subs {
        subs.insert(s.name.clone());
        for al in s.aliases.iter().chain(s.visible_aliases.iter()) {
            subs.insert(al.clone());
        }
        for l in s.long_flag.iter().chain(s.long_flag_aliases.iter()) {
            longs.insert(l.clone());
        }
        all_names(s, longs, shorts, subs, values, ids);
    }
}

/// Exit/stream contract and suggestion hygiene for any error.
fn check_error_contract(spec: &CmdSpec, e: &ErrObs) -> Vec<(String, String)> {
    let mut bad = vec![];
    let info = e.kind == "DisplayHelp" || e.kind == "DisplayVersion";
    if e.use_stderr == info {
        bad.push((format!("{} uses the wrong output stream", e.kind), format!("use_stderr={}", e.use_stderr)));
    }
    let want_exit = if info { 0 } else { 2 };
    if e.exit_code != want_exit {
        bad.push((format!("{} carries exit code {}", e.kind, e.exit_code), format!("expected {}", want_exit)));
    }
    let (mut longs, mut shorts, mut subs, mut values, mut ids) = (BTreeSet::new(), BTreeSet::new(), BTreeSet::new(), BTreeSet::new(), BTreeSet::new());
    all_names(spec, &mut longs, &mut shorts, &mut subs, &mut values, &mut ids);
    longs.insert("help".into());
    longs.insert("version".into());
    subs.insert("help".into());
    // the closing hint "For more information, try '<X>'." must point at something that exists
    // (both settings are propagated to every level, so the whole tree can be judged at once)
    if let Some(p) = e.rendered.find("For more information, try '") {
        let rest = &e.rendered[p + "For more information, try '".len()..];
        let hint = rest.split('\'').next().unwrap_or("");
        fn any_long_help(c: &CmdSpec) -> bool {
            c.args.iter().any(|a| a.long.as_deref() == Some("help") || a.short == Some('h')) || c.subs.iter().any(any_long_help)
        }
        fn any_sub_help(c: &CmdSpec) -> bool {
            c.subs.iter().any(|s| s.name == "help" || any_sub_help(s))
        }
        if (hint == "--help" || hint == "-h") && spec.has(Setting::DisableHelpFlag) && !any_long_help(spec) {
            bad.push(("the error's closing hint names a help flag that does not exist".into(), format!("try '{}'", hint)));
        }
        if hint == "help" && spec.has(Setting::DisableHelpSubcommand) && !any_sub_help(spec) {
            bad.push(("the error's closing hint names a help subcommand that does not exist".into(), format!("try '{}'", hint)));
        }
    }
    // "tip: '<sub> --<flag>' exists": the flag must be one of that subcommand
    if e.kind == "UnknownArgument" {
        fn subs_named<'a>(c: &'a CmdSpec, n: &str, out: &mut Vec<&'a CmdSpec>) {
            for s in &c.subs {
                if s.name == n || s.aliases.iter().chain(s.visible_aliases.iter()).any(|a| a == n) {
                    out.push(s);
                }
                subs_named(s, n, out);
            }
        }
        for line in e.rendered.lines() {
            let Some(rest) = line.trim().strip_prefix("tip: '") else { continue };
            let Some(named) = rest.strip_suffix("' exists") else { continue };
            let Some((sub, flag)) = named.split_once(" --") else { continue };
            let mut cands = vec![];
            subs_named(spec, sub, &mut cands);
            let has = cands.iter().any(|s| flag == "help" || flag == "version" || s.args.iter().any(|a| a.long.iter().chain(a.aliases.iter()).chain(a.visible_aliases.iter()).any(|l| l == flag)));
            if cands.is_empty() {
                bad.push(("a suggested subcommand does not exist".into(), format!("tip {:?}", named)));
            } else if !has {
                bad.push(("the error points at a flag of a subcommand that does not have it".into(), format!("tip {:?}", named)));
            }
        }
    }
    for (k, v) in &e.context {
        let items: Vec<&str> = v.split('\u{1f}').filter(|s| !s.is_empty()).collect();
        match k.as_str() {
            "SuggestedArg" => {
                for it in items {
                    let name = it.trim_start_matches('-');
                    let name = name.split(|c: char| c == ' ' || c == '=').next().unwrap_or("");
                    let ok = it == "--" || it.starts_with("-- ") || longs.contains(name) || (name.chars().count() == 1 && shorts.contains(&name.chars().next().unwrap()));
                    if !ok {
                        bad.push(("a suggested argument does not exist".into(), format!("suggested {:?}", it)));
                    }
                }
            }
            "SuggestedSubcommand" | "ValidSubcommand" => {
                for it in items {
                    if !subs.contains(it) {
                        bad.push(("a suggested subcommand does not exist".into(), format!("suggested {:?}", it)));
                    }
                }
            }
            "SuggestedValue" => {
                for it in items {
                    if !values.contains(it) {
                        bad.push(("a suggested value does not exist".into(), format!("suggested {:?}", it)));
                    }
                }
            }
            _ => {}
        }
    }
    bad
}

fn judge_grammar(spec: &CmdSpec, cmd: &clap::Command, argv: &[Vec<u8>], h: &mut Hist) -> Vec<(String, String)> {
    let out = parse(cmd, spec, argv);
    let rd = r1::read(spec, argv);
    let mut bad = vec![];
    match &out {
        Outcome::Ok(_) => {
            h.bump("ok");
        }
        Outcome::Err(e) => {
            bad.extend(check_error_contract(spec, e));
            if rd.unspecified.is_some() {
                h.bump("err/unspecified");
                return bad;
            }
            h.nontrivial += 1;
            if rd.broken.is_empty() {
                h.bump("err/UNJUSTIFIED");
                bad.push((
                    format!("a line that breaks no rule is rejected ({})", e.kind),
                    e.rendered.lines().next().unwrap_or("").to_string(),
                ));
            } else {
                let ok = rd.broken.iter().any(|r| allowed_kinds(*r).contains(&e.kind.as_str()));
                if ok {
                    h.bump(&format!("err/classified:{}", e.kind));
                } else {
                    bad.push((
                        format!("error kind {} names no rule the line breaks", e.kind),
                        format!("rules broken according to the documented grammar: {:?}; message: {}", rd.broken, e.rendered.lines().next().unwrap_or("")),
                    ));
                }
            }
        }
    }
    bad
}

/// Explicit-presence set of a rel-family line, derived from the tokens (overrides act both ways).
fn line_presence(spec: &CmdSpec, argv: &[Vec<u8>]) -> Option<(Obs, bool)> {
    let mut present: Vec<(String, Vec<Vec<u8>>)> = vec![];
    let mut has_sub = false;
    for t in argv {
        let s = std::str::from_utf8(t).ok()?;
        if s == "sub" {
            has_sub = true;
            break; // the rest belongs to the subcommand
        }
        let (id, val) = if s == "-b" {
            ("b".to_string(), None)
        } else {
            match s.strip_prefix("--")?.split_once('=') {
                Some((k, v)) => (k.to_string(), Some(v.as_bytes().to_vec())),
                None => (s.strip_prefix("--")?.to_string(), None),
            }
        };
        let a = spec.arg(&id)?;
        // overrides in both directions
        let mut removed = vec![];
        for (pid, _) in &present {
            let pa = spec.arg(pid)?;
            if pid != &id && (a.overrides.contains(pid) || pa.overrides.contains(&id)) {
                removed.push(pid.clone());
            }
        }
        present.retain(|(p, _)| !removed.contains(p));
        if let Some(e) = present.iter_mut().find(|(p, _)| p == &id) {
            if a.act() == Act::Append {
                e.1.extend(val);
            } else if a.act() == Act::Count {
                // a counter may repeat
            } else {
                return None; // repeat of a Set/flag argument: grammar-level, part 1's business
            }
        } else {
            present.push((id, val.into_iter().collect()));
        }
    }
    let mut ob = Obs::default();
    for a in &spec.args {
        let mut o = ArgObs::default();
        if let Some((_, v)) = present.iter().find(|(p, _)| p == &a.id) {
            o.present = true;
            o.source = Some(Src::Cli);
            o.occ = vec![if v.is_empty() { vec![b"true".to_vec()] } else { v.clone() }];
        } else if a.env.is_some() {
            o.present = true;
            o.source = Some(Src::Env);
            o.occ = vec![vec![if a.id == "o" { b"x".to_vec() } else if a.act() == Act::Count { b"3".to_vec() } else { b"true".to_vec() }]];
        }
        ob.args.insert(a.id.clone(), o);
    }
    if has_sub {
        ob.sub = Some(("sub".into(), Box::new(Obs::default())));
    }
    Some((ob, has_sub))
}

fn judge_relations(spec: &CmdSpec, cmd: &clap::Command, argv: &[Vec<u8>], h: &mut Hist) -> Vec<(String, String)> {
    let out = parse(cmd, spec, argv);
    let mut bad = vec![];
    if let Outcome::Err(e) = &out {
        bad.extend(check_error_contract(spec, e));
    }
    let Some((ob, has_sub)) = line_presence(spec, argv) else {
        h.bump("rel/not-pinned");
        return bad;
    };
    // tokens after `sub` belong to the subcommand (where they are unknown): not part of this space
    if has_sub && argv.last().map(|t| t != b"sub").unwrap_or(false) {
        h.bump("rel/not-pinned");
        return bad;
    }
    // an argument declared to conflict with a group it is itself a member of has no reading
    let self_conflict = spec.args.iter().any(|a| a.conflicts.iter().any(|c| r2::members(spec, c).contains(&a.id.as_str())))
        || spec.groups.iter().any(|g| g.conflicts.iter().any(|c| g.args.contains(c)));
    if self_conflict {
        h.bump("rel/not-pinned");
        return bad;
    }
    // env-supplied arguments that the line overrides etc. are beyond this construction
    if spec.args.iter().any(|a| a.env.is_some() && (!a.overrides.is_empty() || spec.args.iter().any(|b| b.overrides.contains(&a.id)))) {
        h.bump("rel/not-pinned");
        return bad;
    }
    let args_conflict_sub = spec.has(Setting::ArgsConflictsWithSubcommands) && has_sub && argv.first().map(|t| t != b"sub").unwrap_or(false);
    let strict = r2::evaluate_with(spec, &ob, true);
    let lenient = r2::evaluate_with(spec, &ob, false);
    match &out {
        Outcome::Ok(_) => h.bump("rel/ok"),
        Outcome::Err(e) => {
            h.nontrivial += 1;
            match e.kind.as_str() {
                "ArgumentConflict" => {
                    let justified = args_conflict_sub || strict.iter().any(|b| !matches!(b, Broken::Missing(..)));
                    if !justified {
                        bad.push(("ArgumentConflict although no two present arguments conflict".into(), format!("explicit {:?}; {}", r2::explicit_set(spec, &ob), e.rendered.lines().next().unwrap_or(""))));
                    } else {
                        h.bump("rel/conflict-justified");
                    }
                }
                "MissingRequiredArgument" => {
                    if !strict.iter().any(|b| matches!(b, Broken::Missing(..))) {
                        bad.push(("MissingRequiredArgument although nothing required is missing".into(), format!("explicit {:?}; {}", r2::explicit_set(spec, &ob), e.rendered.lines().next().unwrap_or(""))));
                    } else {
                        h.bump("rel/missing-justified");
                    }
                }
                "DisplayHelpOnMissingArgumentOrSubcommand" => {
                    // arg_required_else_help: justified exactly when nothing was supplied explicitly
                    // (command line or environment) and no subcommand was given
                    let nothing = r2::explicit_set(spec, &ob).is_empty() && !has_sub;
                    if !(spec.has(Setting::ArgRequiredElseHelp) && nothing) {
                        bad.push(("help-on-missing-arguments error although arguments were supplied".into(), format!("explicit {:?}; sub {}", r2::explicit_set(spec, &ob), has_sub)));
                    } else {
                        h.bump("rel/help-on-empty-justified");
                    }
                }
                other => {
                    // nothing else can be wrong with these lines
                    if strict.is_empty() && !args_conflict_sub {
                        bad.push((format!("a line that breaks no rule is rejected ({})", other), e.rendered.lines().next().unwrap_or("").to_string()));
                    }
                }
            }
            if strict.is_empty() && !args_conflict_sub && matches!(e.kind.as_str(), "ArgumentConflict" | "MissingRequiredArgument") {
                // already reported above as unjustified
            }
        }
    }
    let _ = lenient;
    bad
}

fn recheck(case: &Value) -> Vec<Violation> {
    let Ok(spec) = CmdSpec::from_json(&case["spec"]) else { return vec![] };
    let argv = unhex_argv(&case["argv_hex"]);
    let Ok(cmd) = build_valid(&spec) else { return vec![] };
    let mut h = Hist::new();
    let r = if case["part"] == "relations" {
        catch(|| judge_relations(&spec, &cmd, &argv, &mut h))
    } else {
        catch(|| judge_grammar(&spec, &cmd, &argv, &mut h))
    };
    match r {
        Ok(b) => b.into_iter().map(|(c, w)| Violation { cause: c, order: (0, 0), what: w, case: case.clone() }).collect(),
        Err(p) => vec![Violation { cause: p.key(), order: (0, 0), what: p.show(), case: case.clone() }],
    }
}

fn main() {
    let cli = Cli::parse();
    install_silent_hook();
    fix_env();
    let tier = match &cli.mode {
        Mode::Replay(p) => run_replay(PROP, p, &recheck),
        Mode::Explore(t) => *t,
    };
    let rep = Report::new(PROP, tier, cli.seed);
    let plan: Vec<(usize, usize, usize)> = match tier {
        Tier::Quick => vec![(2, 1, 3), (3, 0, 2), (1, 1, 4)],
        Tier::Thorough => vec![(3, 1, 3), (2, 2, 3), (2, 1, 4)],
    };
    let k = tier.pick(2usize, 3usize);
    rep.rule("part 1: block = conventional/hyphen configuration, case = argv of the prefix tree A(cfg)^{<=L}; the documented-grammar reader's set of broken rule classes decides whether a rejection is justified and correctly classified. part 2: block = relation graph with <= k edges, case = ordering of distinct tokens; presence derived from the line, judged by R2 (strict reading). Every error: stream, exit code, suggestions. non-trivial = rejected lines whose classification was checked");
    rep.set("bounds", json!({"grammar_plan_(max_templates,max_features,max_argv_len)": plan, "relation_max_edges": k, "relation_argv_len": 3}));
    rep.assume("error-kind classes: unknown -> {UnknownArgument, InvalidSubcommand}; value count -> {TooManyValues, TooFewValues, WrongNumberOfValues, InvalidValue(empty), UnknownArgument(surplus positional)}; no `=` -> NoEquals; repeat -> ArgumentConflict; value language -> {InvalidUtf8, InvalidValue, ValueValidation}; help/version -> DisplayHelp/DisplayVersion");
    rep.assume("lines the documented-grammar reader calls unspecified are excluded; relation lines with repeated Set arguments or environment-supplied arguments in override relations are not pinned");

    // part 1
    let mut blocks: Vec<(conv::Conv, usize)> = vec![];
    for (na, nf, l) in &plan {
        for c in conv::configs(*na, *nf) {
            if let Some(b) = blocks.iter_mut().find(|b| b.0.name == c.name) {
                b.1 = b.1.max(*l);
            } else {
                blocks.push((c, *l));
            }
        }
    }
    let hl = tier.pick(4usize, 5usize);
    for c in conv::hyphen_configs() {
        blocks.push((c, hl));
    }
    par_blocks(blocks.len(), |bi, _| {
        let (cv, l) = &blocks[bi];
        let Ok(cmd) = build_valid(&cv.spec) else { return };
        let nested = cv.name.starts_with("nested:");
        let alpha = if nested { conv::nested_alphabet() } else if cv.name.starts_with("values:") { conv::values_alphabet() } else if cv.name.starts_with("suggest:") { conv::suggest_alphabet() } else if cv.name.starts_with("defer:") { conv::defer_alphabet() } else if cv.name.starts_with("posalias:") { conv::posalias_alphabet() } else if cv.name.contains(':') { conv::hyphen_alphabet() } else { conv::alphabet(&cv.spec) };
        let mut h = Hist::new();
        let mut argv: Vec<Vec<u8>> = vec![];
        let mut idx = 0u64;
        for_each_seq(alpha.len(), *l, |s| {
            argv.clear();
            if nested {
                // the two steps down are fixed; the enumerated tokens are read two levels below the root
                argv.push(b"sub".to_vec());
                argv.push(b"deep".to_vec());
            }
            argv.extend(s.iter().map(|i| alpha[*i].clone()));
            h.evaluations += 1;
            h.states += 1;
            h.transitions += 1;
            h.validated += 1;
            idx += 1;
            let order = (((cv.n_args + cv.n_feats) as u64) << 32 | bi as u64, idx);
            let mk = |argv: &[Vec<u8>]| json!({"part": "grammar", "config": cv.name, "spec": cv.spec.to_json(), "argv_hex": hex_argv(argv), "argv_shown": show_argv(argv)});
            match catch(|| judge_grammar(&cv.spec, &cmd, &argv, &mut h)) {
                Ok(bad) => {
                    for (c, w) in bad {
                        rep.violation(Violation { cause: c.clone(), order, what: format!("config {} argv {:?}: {} ({})", cv.name, argv.iter().map(|a| show(a)).collect::<Vec<_>>(), c, w), case: mk(&argv) });
                    }
                }
                Err(p) => rep.violation(Violation { cause: p.key(), order, what: format!("config {} argv {:?}: {}", cv.name, argv.iter().map(|a| show(a)).collect::<Vec<_>>(), p.show()), case: mk(&argv) }),
            }
        });
        if bi == 1 || bi == blocks.len() - 1 {
            rep.sample(json!({"part": "grammar", "config": cv.name, "last_argv": show_argv(&argv)}));
        }
        rep.merge(&h);
    });
    // part 2
    let graphs = rel::graphs(k);
    let argvs = rel::argvs(3);
    par_blocks(graphs.len(), |bi, _| {
        let (names, spec) = &graphs[bi];
        let Ok(cmd) = build_valid(spec) else { return };
        let mut h = Hist::new();
        for (ci, argv) in argvs.iter().enumerate() {
            h.evaluations += 1;
            h.states += 1;
            h.transitions += 1;
            h.validated += 1;
            let order = (1u64 << 60 | (names.len() as u64) << 32 | bi as u64, ci as u64);
            let mk = || json!({"part": "relations", "edges": names, "spec": spec.to_json(), "argv_hex": hex_argv(argv), "argv_shown": show_argv(argv)});
            match catch(|| judge_relations(spec, &cmd, argv, &mut h)) {
                Ok(bad) => {
                    for (c, w) in bad {
                        rep.violation(Violation { cause: c.clone(), order, what: format!("edges {:?} argv {:?}: {} ({})", names, argv.iter().map(|a| show(a)).collect::<Vec<_>>(), c, w), case: mk() });
                    }
                }
                Err(p) => rep.violation(Violation { cause: p.key(), order, what: format!("edges {:?} argv {:?}: {}", names, argv.iter().map(|a| show(a)).collect::<Vec<_>>(), p.show()), case: mk() }),
            }
        }
        if bi == graphs.len() - 1 {
            rep.sample(json!({"part": "relations", "edges": names, "last_argv": show_argv(argvs.last().unwrap())}));
        }
        rep.merge(&h);
    });
    rep.finish(&recheck);
}
