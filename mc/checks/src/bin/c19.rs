//! C19 — man pages always render, cover every visible item, and keep user text as text.
//!
//! Part 1 (coverage): man-page configurations (<= 2 args from 15 shapes x modifiers, root metadata
//! toggles, visible + hidden subcommand) — no panic, deterministic, every non-hidden option /
//! positional / subcommand named, hidden markers absent; also each `render_*_section` entry point.
//! Part 2 (text stays text): every text slot x every line-structured hostile string (<= 2 lines of
//! <= 2 atoms over {. ' \ - .SH .\" space " é} first / after a word / before a word): the multiset
//! of control-line requests must equal that of the same page with innocuous text of identical line
//! structure.

use clap_mangen::Man;
use mccore::report::run_replay;
use mccore::*;
use mcmodel::*;
use serde_json::{json, Value};
use std::collections::BTreeMap;

const PROP: &str = "C19";

const SHAPES: [&str; 10] = ["flag-short", "flag-long", "flag-both", "count-short", "opt-short", "opt-both", "opt-optional", "pos-required", "pos-optional", "pos-multi"];
const MODS: [&str; 13] = ["none", "hide", "heading", "heading-upper", "env", "default", "possible-values", "possible-values-help", "long-help", "hide-short-help", "value-names", "hide+heading", "hide+heading+possible-values-help"];
const ROOTS: [&str; 11] = ["none", "version", "long-version", "author", "after-help", "long-about", "before-help", "sub-heading", "empty-about", "empty-long-about", "only-a-user-defined-help-subcommand"];

fn mk_arg(n: usize, shape: &str, m: &str) -> ArgSpec {
    let id = format!("arg{}", n);
    let s = if n == 0 { 'x' } else { 'y' };
    let l = format!("long{}", n);
    let mut a = match shape {
        "flag-short" => ArgSpec::flag(&id, Some(s), None),
        "flag-long" => ArgSpec::flag(&id, None, Some(&l)),
        "flag-both" => ArgSpec::flag(&id, Some(s), Some(&l)),
        "count-short" => {
            let mut a = ArgSpec::flag(&id, Some(s), None);
            a.action = Some(Act::Count);
            a
        }
        "opt-short" => ArgSpec::opt(&id, Some(s), None),
        "opt-both" => ArgSpec::opt(&id, Some(s), Some(&l)),
        "opt-optional" => {
            let mut a = ArgSpec::opt(&id, Some(s), Some(&l));
            a.num_args = Some((0, Some(1)));
            a
        }
        "pos-required" => {
            let mut a = ArgSpec::pos(&id, n + 1);
            a.required = true;
            a
        }
        "pos-optional" => ArgSpec::pos(&id, n + 1),
        _ => {
            let mut a = ArgSpec::pos(&id, n + 1);
            a.num_args = Some((1, None));
            a
        }
    };
    let takes = matches!(a.action, Some(Act::Set) | None);
    if takes {
        a.value_names = vec![format!("VAL{}", n)];
    }
    a.help = Some(format!("HELPMARK{}", n));
    for m in m.split('+') {
    match m {
        "hide" => a.hide = true,
        "heading" => a.help_heading = Some("Customhead".into()),
        "heading-upper" => a.help_heading = Some("CUSTOMHEAD".into()),
        "env" => a.env = Some("CLAPMC_UNSET".into()),
        "default" if takes => a.default = vec!["dflt".into()],
        "possible-values" if takes => {
            a.parser = Vp::Pv(vec![PvSpec { name: "fast".into(), ..Default::default() }, PvSpec { name: "HIDDENPV".into(), hide: true, ..Default::default() }]);
        }
        "possible-values-help" if takes => {
            a.parser = Vp::Pv(vec![
                PvSpec { name: "fast".into(), help: Some("PVHELPfast".into()), ..Default::default() },
                PvSpec { name: "HIDDENPV".into(), hide: true, help: Some("PVHELPhidden".into()), ..Default::default() },
            ]);
        }
        "long-help" => a.long_help = Some(format!("LONGHELPMARK{}", n)),
        "hide-short-help" => a.hide_short_help = true,
        "value-names" if takes && !a.is_positional() => {
            a.value_names = vec![format!("VAL{}A", n), format!("VAL{}B", n)];
        }
        _ => {}
    }
    }
    a
}

fn mk_cmd(args: Vec<ArgSpec>, root: &str) -> CmdSpec {
    let mut c = CmdSpec::new("prog");
    c.about = Some("ABOUTROOT".into());
    c.args = args;
    match root {
        "version" => c.version = Some("1.2.3".into()),
        "long-version" => c.long_version = Some("1.2.3-long".into()),
        "author" => c.author = Some("AUTHORMARK".into()),
        "after-help" => c.after_help = Some("AFTERMARK".into()),
        "long-about" => c.long_about = Some("LONGABOUTMARK".into()),
        "before-help" => c.before_help = Some("BEFOREMARK".into()),
        "sub-heading" => c.subcommand_help_heading = Some("Subhead".into()),
        "empty-about" => c.about = Some(String::new()),
        "empty-long-about" => {
            c.about = None;
            c.long_about = Some(String::new());
        }
        "only-a-user-defined-help-subcommand" => {
            // the generated help subcommand is off; the only visible subcommand is the user's `help`
            c.set(Setting::DisableHelpSubcommand);
            let mut h = CmdSpec::new("help");
            h.about = Some("ABOUTUSERHELP".into());
            let mut hid = CmdSpec::new("hidcmd");
            hid.hide = true;
            hid.about = Some("ABOUTHIDDEN".into());
            c.subs.push(h);
            c.subs.push(hid);
            return c;
        }
        _ => {}
    }
    let mut vis = CmdSpec::new("viscmd");
    vis.about = Some("ABOUTVIS".into());
    let mut hid = CmdSpec::new("hidcmd");
    hid.hide = true;
    hid.about = Some("ABOUTHIDDEN".into());
    c.subs.push(vis);
    c.subs.push(hid);
    c
}

fn render(spec: &CmdSpec) -> String {
    let man = Man::new(build(spec));
    let mut buf: Vec<u8> = vec![];
    man.render(&mut buf).expect("render to Vec");
    String::from_utf8_lossy(&buf).to_string()
}

fn render_sections(spec: &CmdSpec) -> String {
    let man = Man::new(build(spec));
    let mut buf: Vec<u8> = vec![];
    let _ = man.render_title(&mut buf);
    let _ = man.render_name_section(&mut buf);
    let _ = man.render_synopsis_section(&mut buf);
    let _ = man.render_description_section(&mut buf);
    let _ = man.render_options_section(&mut buf);
    let _ = man.render_subcommands_section(&mut buf);
    let _ = man.render_extra_section(&mut buf);
    let _ = man.render_version_section(&mut buf);
    let _ = man.render_authors_section(&mut buf);
    String::from_utf8_lossy(&buf).to_string()
}

/// Undo roff escaping of hyphens and font switches for textual containment checks.
fn plain(page: &str) -> String {
    page.replace("\\-", "-").replace("\\fB", "").replace("\\fR", "").replace("\\fI", "").replace("\\fP", "").replace("\\&", "")
}

fn check_coverage(spec: &CmdSpec) -> Vec<(String, String)> {
    let mut bad = vec![];
    let a = render(spec);
    let b = render(spec);
    if a != b {
        bad.push(("two renders of the same command differ".into(), String::new()));
    }
    let _ = render_sections(spec);
    let p = plain(&a);
    for (n, arg) in spec.args.iter().enumerate() {
        if arg.hide {
            for marker in [format!("HELPMARK{}", n), format!("long{}", n), format!("VAL{}", n)] {
                if p.contains(&marker) && !arg.required {
                    bad.push(("a hidden argument appears in the man page".into(), format!("found {:?}", marker)));
                }
            }
            continue;
        }
        let named = if arg.is_positional() {
            p.contains(&format!("VAL{}", n))
        } else {
            arg.long.as_ref().map(|l| p.contains(&format!("--{}", l))).unwrap_or(true) && arg.short.map(|s| p.contains(&format!("-{}", s))).unwrap_or(true)
        };
        if !named {
            bad.push(("a non-hidden argument is not named in the man page".into(), format!("{} ({:?}/{:?})", arg.id, arg.short, arg.long)));
        }
        // listed with its help in the options section, not only in the synopsis
        // (an argument whose help is hidden in short help and that has no long help has no text)
        let has_text = arg.long_help.is_some() && !arg.hide_long_help || !arg.hide_short_help;
        if has_text && !p.contains(&format!("HELPMARK{}", n)) && !p.contains(&format!("LONGHELPMARK{}", n)) {
            bad.push(("a non-hidden argument has no entry (help text) in the man page".into(), arg.id.clone()));
        }
    }
    for sc in spec.subs.iter().filter(|s| !s.hide) {
        // by its name in the SUBCOMMANDS section (`prog-<name>(1)`), or at least by its about text
        let named = p.contains(&format!("prog-{}", sc.name)) || p.contains(&format!("prog\\-{}", sc.name)) || sc.about.as_ref().map(|a| p.contains(a.as_str())).unwrap_or(false);
        if !named {
            bad.push(("a non-hidden subcommand is not named in the man page".into(), sc.name.clone()));
        }
    }
    for marker in ["hidcmd", "ABOUTHIDDEN", "HIDDENPV", "PVHELPhidden"] {
        if p.contains(marker) {
            bad.push((format!("a hidden item appears in the man page ({})", if marker.contains("PV") { "possible value" } else { "subcommand" }), marker.to_string()));
        }
    }
    bad
}

// ---- part 2
const ATOMS: [&str; 9] = [".", "'", "\\", "-", ".SH", ".\\\"", " ", "\"", "é"];
const SLOTS: [&str; 20] = [
    "about", "long_about", "before_help", "after_help", "after_long_help", "author", "version", "long_version", "arg_help", "arg_long_help", "pos_help", "pv_help", "sub_about", "help_heading", "value_name",
    // the page's own metadata, set through the `Man` builder
    "man_title", "man_section", "man_date", "man_source", "man_manual",
];

fn hostile_lines() -> Vec<String> {
    let mut atoms: Vec<&str> = vec![""];
    atoms.extend(ATOMS);
    let mut out: Vec<String> = vec![];
    for a in &atoms {
        for b in &atoms {
            let core = format!("{}{}", a, b);
            for l in [core.clone(), format!("{}y", core), format!("x{}", core), format!("x {}", core)] {
                if !out.contains(&l) {
                    out.push(l);
                }
            }
        }
    }
    out
}

fn slot_cmd(slot: &str, text: &str) -> CmdSpec {
    let mut c = CmdSpec::new("prog");
    c.about = Some("about text".into());
    let mut f = ArgSpec::flag("flag", Some('f'), Some("flag"));
    f.help = Some("flag help".into());
    let mut o = ArgSpec::opt("opt", Some('o'), Some("opt"));
    o.help = Some("opt help".into());
    o.parser = Vp::Pv(vec![PvSpec { name: "one".into(), help: Some("one help".into()), ..Default::default() }, PvSpec { name: "two".into(), ..Default::default() }]);
    let mut p = ArgSpec::pos("pos", 1);
    p.help = Some("pos help".into());
    let mut s = CmdSpec::new("sub");
    s.about = Some("sub about".into());
    let t = Some(text.to_string());
    match slot {
        "about" => c.about = t,
        "long_about" => c.long_about = t,
        "before_help" => c.before_help = t,
        "after_help" => c.after_help = t,
        "after_long_help" => c.after_long_help = t,
        "author" => c.author = t,
        "version" => c.version = t,
        "long_version" => c.long_version = t,
        "arg_help" => f.help = t,
        "arg_long_help" => o.long_help = t,
        "pos_help" => p.help = t,
        "pv_help" => {
            if let Vp::Pv(v) = &mut o.parser {
                v[0].help = t;
            }
        }
        "sub_about" => s.about = t,
        "help_heading" => f.help_heading = t,
        "value_name" => o.value_names = vec![text.to_string()],
        _ => {}
    }
    c.args = vec![f, o, p];
    c.subs.push(s);
    c
}

fn innocuous(text: &str) -> String {
    text.split('\n').map(|l| if l.is_empty() { String::new() } else if l.trim().is_empty() { " ".to_string() } else { "xx".to_string() }).collect::<Vec<_>>().join("\n")
}

fn requests(page: &str) -> BTreeMap<String, usize> {
    let mut m = BTreeMap::new();
    for l in page.lines() {
        if l.starts_with('.') || l.starts_with('\'') {
            let name: String = l[1..].trim_start().split(|c: char| c.is_whitespace()).next().unwrap_or("").to_string();
            *m.entry(format!("{}{}", &l[..1], name)).or_insert(0) += 1;
        }
    }
    m
}

fn render_slot(slot: &str, text: &str) -> String {
    let mut man = Man::new(build(&slot_cmd(slot, text)));
    man = match slot {
        "man_title" => man.title(text.to_string()),
        "man_section" => man.section(text.to_string()),
        "man_date" => man.date(text.to_string()),
        "man_source" => man.source(text.to_string()),
        "man_manual" => man.manual(text.to_string()),
        _ => man,
    };
    let mut buf: Vec<u8> = vec![];
    man.render(&mut buf).expect("render to Vec");
    String::from_utf8_lossy(&buf).to_string()
}

fn check_text(slot: &str, text: &str) -> Vec<(String, String)> {
    let mut bad = vec![];
    let hostile = render_slot(slot, text);
    let base = render_slot(slot, &innocuous(text));
    let (rh, rb) = (requests(&hostile), requests(&base));
    if rh != rb {
        let mut diff = vec![];
        for (k, v) in &rh {
            let w = rb.get(k).copied().unwrap_or(0);
            if *v != w {
                diff.push(format!("{} x{} (baseline x{})", k, v, w));
            }
        }
        for (k, w) in &rb {
            if !rh.contains_key(k) {
                diff.push(format!("{} x0 (baseline x{})", k, w));
            }
        }
        let offending: Vec<&str> = hostile.lines().filter(|l| (l.starts_with('.') || l.starts_with('\'')) && !base.lines().any(|b| b == *l)).take(3).collect();
        bad.push((format!("text in slot `{}` changes the set of control lines", slot), format!("requests differing: {:?}; e.g. lines {:?}", diff, offending)));
    }
    bad
}

fn recheck(case: &Value) -> Vec<Violation> {
    let r = if case["part"] == "text" {
        let slot = case["slot"].as_str().unwrap_or("about").to_string();
        let text = String::from_utf8_lossy(&unhex(case["text_hex"].as_str().unwrap_or(""))).to_string();
        catch(|| check_text(&slot, &text))
    } else {
        let Ok(spec) = CmdSpec::from_json(&case["spec"]) else { return vec![] };
        if build_valid(&spec).is_err() {
            return vec![];
        }
        catch(|| check_coverage(&spec))
    };
    match r {
        Ok(b) => b.into_iter().map(|(c, w)| Violation { cause: c, order: (0, 0), what: w, case: case.clone() }).collect(),
        Err(p) => vec![Violation { cause: p.key(), order: (0, 0), what: p.show(), case: case.clone() }],
    }
}

fn main() {
    let cli = Cli::parse();
    install_silent_hook();
    fix_env();
    let tier = match &cli.mode {
        Mode::Replay(p) => run_replay(PROP, p, &recheck),
        Mode::Explore(t) => *t,
    };
    let rep = Report::new(PROP, tier, cli.seed);
    // part 1 configurations
    let mut cfgs: Vec<(Vec<(usize, usize)>, usize)> = vec![];
    for r in 0..ROOTS.len() {
        cfgs.push((vec![], r));
        for s in 0..SHAPES.len() {
            for m in 0..MODS.len() {
                cfgs.push((vec![(s, m)], r));
            }
        }
    }
    for s in 0..SHAPES.len() {
        for m in 0..MODS.len() {
            for s2 in 0..SHAPES.len() {
                for m2 in [0usize, 1, 2, 3, 11, 12] {
                    cfgs.push((vec![(s, m), (s2, m2)], 0));
                }
            }
        }
    }
    // three arguments whose headings interleave (A, B, A) — every shape in the middle, options around
    let (m_head, m_upper, m_none) = (2usize, 3usize, 0usize);
    for s2 in 0..SHAPES.len() {
        for (ma, mb) in [(m_head, m_upper), (m_head, m_none), (m_none, m_head), (m_upper, m_head)] {
            cfgs.push((vec![(0, ma), (s2, mb), (1, ma)], 0));
        }
    }
    let lines = hostile_lines();
    let second: Vec<String> = match tier {
        Tier::Quick => lines.iter().filter(|l| l.len() <= 3).take(30).cloned().collect(),
        Tier::Thorough => lines.clone(),
    };
    rep.rule("part 1: block = man-page configuration (<= 2 arguments from 10 shapes x 13 modifiers incl. headings that differ only in case and hidden arguments under a heading shared with a visible one, 8 root metadata variants, one visible and one hidden subcommand); Man::render twice + every render_*_section; coverage and hidden-marker clauses on the un-escaped text. part 2: block = (text slot, first line), case = optional second line; the page with the hostile text and the page with innocuous text of identical line structure must have the same multiset of control-line requests. non-trivial = part-2 cases (a control-line comparison was made)");
    rep.set("bounds", json!({"coverage_configurations": cfgs.len(), "text_slots": SLOTS, "atoms": ATOMS, "first_lines": lines.len(), "second_lines": second.len() + 1}));
    rep.assume("a roff control line is a line beginning with `.` or `'`; its request is the following word (R10)");

    par_blocks(cfgs.len(), |bi, _| {
        let (shapes, r) = &cfgs[bi];
        let args: Vec<ArgSpec> = shapes.iter().enumerate().map(|(n, (s, m))| mk_arg(n, SHAPES[*s], MODS[*m])).collect();
        let spec = mk_cmd(args, ROOTS[*r]);
        if build_valid(&spec).is_err() {
            return;
        }
        let mut h = Hist::new();
        h.evaluations += 1;
        h.states += 1;
        h.transitions += 1;
        h.validated += 1;
        let desc: Vec<(&str, &str)> = shapes.iter().map(|(s, m)| (SHAPES[*s], MODS[*m])).collect();
        let mk = || json!({"part": "coverage", "args": desc, "root": ROOTS[*r], "spec": spec.to_json()});
        match catch(|| check_coverage(&spec)) {
            Ok(bad) => {
                h.bump("coverage/rendered");
                for (c, w) in bad {
                    rep.violation(Violation { cause: c.clone(), order: (shapes.len() as u64, bi as u64), what: format!("args {:?} root {}: {} ({})", desc, ROOTS[*r], c, w), case: mk() });
                }
            }
            Err(p) => rep.violation(Violation { cause: p.key(), order: (shapes.len() as u64, bi as u64), what: format!("args {:?} root {}: {}", desc, ROOTS[*r], p.show()), case: mk() }),
        }
        if bi == 5 {
            rep.sample(json!({"part": "coverage", "args": desc, "root": ROOTS[*r]}));
        }
        rep.merge(&h);
    });
    // part 2
    let blocks: Vec<(usize, usize)> = (0..SLOTS.len()).flat_map(|s| (0..lines.len()).map(move |l| (s, l))).collect();
    par_blocks(blocks.len(), |bi, _| {
        let (si, li) = blocks[bi];
        let slot = SLOTS[si];
        let mut h = Hist::new();
        let mut texts: Vec<String> = vec![lines[li].clone()];
        for s in &second {
            texts.push(format!("{}\n{}", lines[li], s));
            // runs of line breaks: CRLF, a blank line, a bare carriage return before the break
            texts.push(format!("{}\r\n{}", lines[li], s));
            texts.push(format!("{}\n\n{}", lines[li], s));
            texts.push(format!("{}\n\r{}", lines[li], s));
        }
        for (ti, text) in texts.iter().enumerate() {
            if text.is_empty() {
                continue;
            }
            h.evaluations += 1;
            h.states += 1;
            h.transitions += 1;
            h.validated += 1;
            h.nontrivial += 1;
            let mk = || json!({"part": "text", "slot": slot, "text_hex": hex(text.as_bytes()), "text_shown": format!("{:?}", text)});
            let order = (10 + text.len() as u64, (bi * 1000 + ti) as u64);
            match catch(|| check_text(slot, text)) {
                Ok(bad) => {
                    h.bump(if bad.is_empty() { "text/structure-unchanged" } else { "text/STRUCTURE-CHANGED" });
                    for (c, w) in bad {
                        rep.violation(Violation { cause: c.clone(), order, what: format!("slot {} text {:?}: {} ({})", slot, text, c, w), case: mk() });
                    }
                }
                Err(p) => rep.violation(Violation { cause: format!("slot {}: {}", slot, p.key()), order, what: format!("slot {} text {:?}: {}", slot, text, p.show()), case: mk() }),
            }
        }
        if bi == blocks.len() - 1 {
            rep.sample(json!({"part": "text", "slot": slot, "text": texts.last()}));
        }
        rep.merge(&h);
    });
    rep.finish(&recheck);
}
