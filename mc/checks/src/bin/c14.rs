//! C14 — OS-string helpers and the argument cursor behave like their simple models.
//!
//! (a) every haystack of <= L bytes over {a,b,=,C3,A9,FF} x every needle of 1..=3 units over
//!     {a,b,=,é} x {find, contains, starts_with, strip_prefix, split (drained), split_once}
//!     against the same operation on `&[u8]` (naive windows).
//! (b) explicit-state search over cursor operation histories, in lock-step with a Vec+index model.

use clap_lex::{OsStrExt, RawArgs, SeekFrom};
use mccore::report::run_replay;
use mccore::*;
use serde_json::{json, Value};
use std::ffi::OsStr;
use std::os::unix::ffi::OsStrExt as _;

const PROP: &str = "C14";
const HALPHA: [u8; 6] = [b'a', b'b', b'=', 0xC3, 0xA9, 0xFF];
const NUNITS: [&str; 4] = ["a", "b", "=", "é"];

fn needles() -> Vec<String> {
    let mut v = vec![];
    for_each_seq(NUNITS.len(), 3, |s| {
        if !s.is_empty() {
            v.push(s.iter().map(|i| NUNITS[*i]).collect::<String>());
        }
    });
    v
}

// ---- R5: byte-slice reference
fn r_find(h: &[u8], n: &[u8]) -> Option<usize> {
    if n.len() > h.len() {
        return None;
    }
    (0..=h.len() - n.len()).find(|&i| &h[i..i + n.len()] == n)
}
fn r_split(h: &[u8], n: &[u8]) -> Vec<Vec<u8>> {
    let mut out = vec![];
    let mut rest = h;
    loop {
        match r_find(rest, n) {
            Some(i) => {
                out.push(rest[..i].to_vec());
                rest = &rest[i + n.len()..];
            }
            None => {
                out.push(rest.to_vec());
                return out;
            }
        }
    }
}

fn boundary_ok(b: &[u8], i: usize) -> bool {
    if i == 0 || i == b.len() {
        return true;
    }
    for j in i.saturating_sub(4)..i {
        if std::str::from_utf8(&b[j..i]).is_ok() {
            return true;
        }
    }
    for k in i + 1..=(i + 4).min(b.len()) {
        if std::str::from_utf8(&b[i..k]).is_ok() {
            return true;
        }
    }
    false
}

fn inside(whole: &[u8], sub: &[u8]) -> Result<(), String> {
    if sub.is_empty() {
        return Ok(());
    }
    let w0 = whole.as_ptr() as usize;
    let s0 = sub.as_ptr() as usize;
    if s0 < w0 || s0 + sub.len() > w0 + whole.len() {
        return Err("piece is not a sub-slice of the haystack".into());
    }
    let off = s0 - w0;
    if !boundary_ok(whole, off) || !boundary_ok(whole, off + sub.len()) {
        return Err(format!("piece [{}..{}] cut inside a UTF-8 sequence", off, off + sub.len()));
    }
    Ok(())
}

fn check_helpers(h: &[u8], needle: &str) -> Vec<(String, String)> {
    let mut bad = vec![];
    let hay_os = os(h);
    let hay: &OsStr = hay_os.as_os_str();
    let hb = hay.as_bytes();
    let n = needle.as_bytes();
    let f = hay.find(needle);
    let rf = r_find(h, n);
    if f != rf {
        bad.push(("find differs from byte search".to_string(), format!("got {:?} want {:?}", f, rf)));
    }
    if hay.contains(needle) != rf.is_some() {
        bad.push(("contains differs from byte search".into(), format!("got {}", hay.contains(needle))));
    }
    let sw = h.starts_with(n);
    if hay.starts_with(needle) != sw {
        bad.push(("starts_with differs from bytes".into(), format!("got {}", hay.starts_with(needle))));
    }
    let sp = hay.strip_prefix(needle);
    let rsp = h.strip_prefix(n);
    if sp.map(|x| x.as_bytes()) != rsp {
        bad.push(("strip_prefix differs from bytes".into(), format!("got {:?} want {:?}", sp.map(|x| show(x.as_bytes())), rsp.map(show))));
    }
    if let Some(p) = sp {
        if let Err(e) = inside(hb, p.as_bytes()) {
            bad.push(("strip_prefix piece boundary".into(), e));
        }
    }
    let so = hay.split_once(needle);
    let rso = rf.map(|i| (&h[..i], &h[i + n.len()..]));
    if so.map(|(a, b)| (a.as_bytes(), b.as_bytes())) != rso {
        bad.push((
            "split_once differs from bytes".into(),
            format!(
                "got {:?} want {:?}",
                so.map(|(a, b)| (show(a.as_bytes()), show(b.as_bytes()))),
                rso.map(|(a, b)| (show(a), show(b)))
            ),
        ));
    }
    if let Some((a, b)) = so {
        for p in [a, b] {
            if let Err(e) = inside(hb, p.as_bytes()) {
                bad.push(("split_once piece boundary".into(), e));
            }
        }
    }
    let mut pieces: Vec<Vec<u8>> = vec![];
    let mut it = hay.split(needle);
    let mut guard = 0;
    while let Some(p) = it.next() {
        if let Err(e) = inside(hb, p.as_bytes()) {
            bad.push(("split piece boundary".into(), e));
        }
        pieces.push(p.as_bytes().to_vec());
        guard += 1;
        if guard > h.len() + 2 {
            bad.push(("split yields more pieces than bytes".into(), String::new()));
            break;
        }
    }
    if it.next().is_some() {
        bad.push(("split iterator resumes after None".into(), String::new()));
    }
    let rs = r_split(h, n);
    if pieces != rs {
        bad.push((
            "split differs from bytes".into(),
            format!(
                "got {:?} want {:?}",
                pieces.iter().map(|p| show(p)).collect::<Vec<_>>(),
                rs.iter().map(|p| show(p)).collect::<Vec<_>>()
            ),
        ));
    }
    bad
}

// ---- (b) cursor
#[derive(Clone, Copy, Debug, PartialEq, Eq, Hash)]
pub enum Op {
    Next,
    Peek,
    IsEnd,
    Remaining,
    Insert(usize),
    Start(u64),
    Current(i64),
    End(i64),
}

fn ops() -> Vec<Op> {
    let mut v = vec![Op::Next, Op::Peek, Op::IsEnd, Op::Remaining, Op::Insert(0), Op::Insert(1), Op::Insert(2)];
    for k in [0, 1, 2, u64::MAX] {
        v.push(Op::Start(k));
    }
    for k in [-2, -1, 0, 1, i64::MIN, i64::MAX] {
        v.push(Op::Current(k));
    }
    for k in [-2, -1, 0, 1, i64::MIN] {
        v.push(Op::End(k));
    }
    v
}

/// R6: a Vec of labels plus an index. `free_run`: `next` past the end keeps counting (variant A)
/// or stays at len (variant B).
#[derive(Clone, Debug, PartialEq, Eq, Hash)]
pub struct ModelCur {
    items: Vec<u32>,
    cur: u128,
    free_run: bool,
}

#[derive(Clone, Debug, PartialEq, Eq)]
enum Ret {
    Item(Option<u32>),
    Bool(bool),
    List(Vec<u32>),
    Unit,
}

impl ModelCur {
    fn step(&mut self, op: Op, fresh: &mut u32) -> Ret {
        let len = self.items.len() as u128;
        match op {
            Op::Next => {
                let r = if self.cur < len { Some(self.items[self.cur as usize]) } else { None };
                if self.cur < len || self.free_run {
                    self.cur = (self.cur + 1).min(usize::MAX as u128);
                }
                Ret::Item(r)
            }
            Op::Peek => Ret::Item(if self.cur < len { Some(self.items[self.cur as usize]) } else { None }),
            Op::IsEnd => Ret::Bool(self.cur >= len),
            Op::Remaining => {
                let st = self.cur.min(len) as usize;
                let r = self.items[st..].to_vec();
                self.cur = len;
                Ret::List(r)
            }
            Op::Insert(n) => {
                let at = self.cur.min(len) as usize;
                let new: Vec<u32> = (0..n)
                    .map(|_| {
                        *fresh += 1;
                        *fresh
                    })
                    .collect();
                self.items.splice(at..at, new);
                Ret::Unit
            }
            Op::Start(k) => {
                self.cur = (k as u128).min(len);
                Ret::Unit
            }
            Op::Current(k) => {
                let base = self.cur as i128;
                self.cur = (base + k as i128).clamp(0, len as i128) as u128;
                Ret::Unit
            }
            Op::End(k) => {
                self.cur = (len as i128 + k as i128).clamp(0, len as i128) as u128;
                Ret::Unit
            }
        }
    }
    /// what the public API can still observe from here: the unread items
    fn unread(&self) -> Vec<u32> {
        let st = self.cur.min(self.items.len() as u128) as usize;
        self.items[st..].to_vec()
    }
}

fn label_of(s: &OsStr) -> u32 {
    s.to_str().and_then(|x| x.parse().ok()).unwrap_or(u32::MAX)
}

#[derive(Clone)]
pub struct St {
    raw: RawArgs,
    cur: clap_lex::ArgCursor,
    a: ModelCur,
    b: ModelCur,
    a_ok: bool,
    b_ok: bool,
    fresh: u32,
    inserts: u32,
}

fn impl_step(raw: &mut RawArgs, cur: &mut clap_lex::ArgCursor, op: Op, fresh: &mut u32) -> Ret {
    match op {
        Op::Next => Ret::Item(raw.next_os(cur).map(label_of)),
        Op::Peek => Ret::Item(raw.peek_os(cur).map(label_of)),
        Op::IsEnd => Ret::Bool(raw.is_end(cur)),
        Op::Remaining => Ret::List(raw.remaining(cur).map(label_of).collect()),
        Op::Insert(n) => {
            let new: Vec<String> = (0..n)
                .map(|_| {
                    *fresh += 1;
                    fresh.to_string()
                })
                .collect();
            raw.insert(cur, new);
            Ret::Unit
        }
        Op::Start(k) => {
            raw.seek(cur, SeekFrom::Start(k));
            Ret::Unit
        }
        Op::Current(k) => {
            raw.seek(cur, SeekFrom::Current(k));
            Ret::Unit
        }
        Op::End(k) => {
            raw.seek(cur, SeekFrom::End(k));
            Ret::Unit
        }
    }
}

fn impl_unread(raw: &RawArgs, cur: &clap_lex::ArgCursor) -> Vec<u32> {
    // observe through peek/next on a clone only (never `remaining`, which is itself under test)
    let mut c = cur.clone();
    let mut out = vec![];
    let mut guard = 0;
    while let Some(x) = raw.next_os(&mut c) {
        out.push(label_of(x));
        guard += 1;
        if guard > 64 {
            break;
        }
    }
    out
}

fn init_state(n: usize) -> St {
    let items: Vec<u32> = (1..=n as u32).collect();
    St {
        raw: RawArgs::new(items.iter().map(|i| i.to_string())),
        cur: RawArgs::new(Vec::<String>::new()).cursor(),
        a: ModelCur { items: items.clone(), cur: 0, free_run: true },
        b: ModelCur { items, cur: 0, free_run: false },
        a_ok: true,
        b_ok: true,
        fresh: 100,
        inserts: 0,
    }
}

/// One lock-step transition. Err = violation (cause, what).
fn lock_step(s: &St, op: Op) -> Result<St, (String, String)> {
    let mut t = s.clone();
    let mut fi = t.fresh;
    let got = catch(|| impl_step(&mut t.raw, &mut t.cur, op, &mut fi));
    let got = match got {
        Ok(g) => g,
        Err(p) => {
            return Err((
                format!("cursor operation panics: {}", p.key()),
                format!("{:?} panicked: {}", op, p.show()),
            ))
        }
    };
    let mut fa = t.fresh;
    let mut fb = t.fresh;
    let ra = t.a.step(op, &mut fa);
    let rb = t.b.step(op, &mut fb);
    t.fresh = fi.max(fa).max(fb);
    if matches!(op, Op::Insert(_)) {
        t.inserts += 1;
    }
    let unread = impl_unread(&t.raw, &t.cur);
    let a_now = t.a_ok && ra == got && t.a.unread() == unread;
    let b_now = t.b_ok && rb == got && t.b.unread() == unread;
    if !a_now && !b_now {
        let (want, wun) = if t.a_ok { (ra, t.a.unread()) } else { (rb, t.b.unread()) };
        return Err((
            format!("cursor {} differs from the list-index model", opname(op)),
            format!(
                "{:?}: returned {:?}, unread afterwards {:?}; model returns {:?}, unread {:?}",
                op, got, unread, want, wun
            ),
        ));
    }
    t.a_ok = a_now;
    t.b_ok = b_now;
    Ok(t)
}

fn opname(op: Op) -> &'static str {
    match op {
        Op::Next => "next",
        Op::Peek => "peek",
        Op::IsEnd => "is_end",
        Op::Remaining => "remaining",
        Op::Insert(_) => "insert",
        Op::Start(_) => "seek(Start)",
        Op::Current(_) => "seek(Current)",
        Op::End(_) => "seek(End)",
    }
}

fn parse_op(s: &str) -> Option<Op> {
    ops().into_iter().find(|o| format!("{:?}", o) == s)
}

fn replay_history(n: usize, hist: &[String]) -> Option<(String, String)> {
    let mut s = init_state(n);
    for (i, o) in hist.iter().enumerate() {
        let op = parse_op(o)?;
        match lock_step(&s, op) {
            Ok(t) => s = t,
            Err((c, w)) => return Some((c, format!("step {}: {}", i, w))),
        }
    }
    None
}

fn recheck(case: &Value) -> Vec<Violation> {
    let mut out = vec![];
    if case["part"] == "b" {
        let n = case["initial_items"].as_u64().unwrap_or(0) as usize;
        let hist: Vec<String> = case["ops"]
            .as_array()
            .map(|a| a.iter().map(|x| x.as_str().unwrap_or("").to_string()).collect())
            .unwrap_or_default();
        if let Some((c, w)) = replay_history(n, &hist) {
            out.push(Violation { cause: c, order: (0, 0), what: w, case: case.clone() });
        }
    } else {
        let h = unhex(case["haystack"].as_str().unwrap_or(""));
        let needle = case["needle"].as_str().unwrap_or("a").to_string();
        match catch(|| check_helpers(&h, &needle)) {
            Ok(b) => {
                for (c, w) in b {
                    out.push(Violation { cause: c, order: (0, 0), what: w, case: case.clone() })
                }
            }
            Err(p) => out.push(Violation { cause: p.key(), order: (0, 0), what: p.show(), case: case.clone() }),
        }
    }
    out
}

// ---- explorer self-check: the same cursor machine explored by stateright
mod sr {
    use super::*;
    use stateright::{Checker, Model, Property};

    #[derive(Clone, Debug, PartialEq, Eq, Hash)]
    pub struct S {
        items: Vec<u32>,
        cur: usize,
        a_cur: u128,
        b_cur: u128,
        a_ok: bool,
        b_ok: bool,
        fresh: u32,
        inserts: u32,
        diverged: bool,
    }

    pub struct M {
        pub initial_items: usize,
    }

    fn to_st(s: &S) -> St {
        let raw = RawArgs::new(s.items.iter().map(|i| i.to_string()));
        let mut cur = raw.cursor();
        for _ in 0..s.cur {
            raw.next_os(&mut cur);
        }
        St {
            raw,
            cur,
            a: ModelCur { items: s.items.clone(), cur: s.a_cur, free_run: true },
            b: ModelCur { items: s.items.clone(), cur: s.b_cur, free_run: false },
            a_ok: s.a_ok,
            b_ok: s.b_ok,
            fresh: s.fresh,
            inserts: s.inserts,
        }
    }

    fn cursor_value(t: &St) -> usize {
        format!("{:?}", t.cur).chars().filter(|c| c.is_ascii_digit()).collect::<String>().parse().unwrap_or(0)
    }

    fn from_st(t: &St) -> S {
        let items: Vec<u32> = {
            let mut c = t.raw.cursor();
            let mut v = vec![];
            while let Some(x) = t.raw.next_os(&mut c) {
                v.push(label_of(x));
            }
            v
        };
        S { items, cur: cursor_value(t), a_cur: t.a.cur, b_cur: t.b.cur, a_ok: t.a_ok, b_ok: t.b_ok, fresh: t.fresh, inserts: t.inserts, diverged: false }
    }

    impl Model for M {
        type State = S;
        type Action = Op;
        fn init_states(&self) -> Vec<S> {
            vec![from_st(&init_state(self.initial_items))]
        }
        fn actions(&self, s: &S, out: &mut Vec<Op>) {
            if s.diverged {
                return;
            }
            for op in ops() {
                if matches!(op, Op::Insert(_)) && s.inserts >= 2 {
                    continue;
                }
                out.push(op);
            }
        }
        fn next_state(&self, s: &S, op: Op) -> Option<S> {
            match lock_step(&to_st(s), op) {
                Ok(t) => Some(from_st(&t)),
                Err(_) => {
                    let mut d = s.clone();
                    d.diverged = true;
                    Some(d)
                }
            }
        }
        fn properties(&self) -> Vec<Property<Self>> {
            vec![Property::<Self>::always("implementation agrees with the list-index model", |_, s| !s.diverged)]
        }
    }

    /// (unique states within `depth`, property held)
    pub fn explore(initial_items: usize, depth: u32) -> (usize, bool) {
        let checker = M { initial_items }.checker().target_max_depth(depth as usize + 1).threads(1).spawn_bfs().join();
        (checker.unique_state_count(), checker.discoveries().is_empty())
    }
}

fn nth_hay(mut idx: u64, len: usize) -> Vec<u8> {
    let mut v = vec![0u8; len];
    for i in (0..len).rev() {
        v[i] = HALPHA[(idx % 6) as usize];
        idx /= 6;
    }
    v
}

fn main() {
    let cli = Cli::parse();
    install_silent_hook();
    let tier = match &cli.mode {
        Mode::Replay(p) => run_replay(PROP, p, &recheck),
        Mode::Explore(t) => *t,
    };
    let rep = Report::new(PROP, tier, cli.seed);
    let max_len = tier.pick(6usize, 8usize);
    let depth = tier.pick(7u32, 9u32);
    let nd = needles();
    rep.rule("(a) every haystack of <= L bytes over {a,b,=,C3,A9,FF} x every needle of 1..=3 units over {a,b,=,é} through find/contains/starts_with/strip_prefix/split_once/split(drained), compared with naive byte-window search; non-trivial = (haystack, needle) pairs where the needle occurs. (b) BFS over cursor histories (21 operations incl. overflowing offsets, initial lists of 0..=3 items, <= 2 inserts per history) in lock-step with a Vec+index model, deduplicated on (items, cursor, model cursors)");
    rep.set("bounds", json!({"haystack_alphabet": 6, "haystack_max_len": max_len, "needles": nd.len(), "cursor_depth": depth, "cursor_ops": ops().len(), "max_inserts_per_history": 2}));
    rep.assume("haystacks longer than the bound / other bytes, needles longer than 3 units, and cursor histories deeper than the bound are not explored");
    rep.assume("cursor model runs in two variants (index free-runs past len on next, or stays at len); the implementation must agree with one of them consistently over the whole history");

    // self-test: determinism
    if check_helpers(b"a=\xc3\xa9b", "=") != check_helpers(b"a=\xc3\xa9b", "=") {
        rep.machinery("self-test: nondeterministic observation");
    }

    // (a)
    let mut blocks: Vec<(usize, u64, u64)> = vec![];
    for len in 0..=max_len {
        let total = 6u64.pow(len as u32);
        let chunk = 6u64.pow(len.saturating_sub(3) as u32).max(1);
        let mut st = 0;
        while st < total {
            blocks.push((len, st, chunk.min(total - st)));
            st += chunk;
        }
    }
    let mut base = vec![0u64; max_len + 1];
    for l in 1..=max_len {
        base[l] = base[l - 1] + 6u64.pow((l - 1) as u32);
    }
    par_blocks(blocks.len(), |bi, _| {
        let (len, st, cnt) = blocks[bi];
        let mut h = Hist::new();
        for idx in st..st + cnt {
            let hay = nth_hay(idx, len);
            for (ni, needle) in nd.iter().enumerate() {
                h.evaluations += 1;
                h.states += 1;
                h.transitions += 1;
                h.validated += 1;
                let order = (base[len] + idx, ni as u64);
                let case = json!({"part": "a", "haystack": hex(&hay), "haystack_shown": show(&hay), "needle": needle});
                match catch(|| check_helpers(&hay, needle)) {
                    Ok(bad) => {
                        if r_find(&hay, needle.as_bytes()).is_some() {
                            h.nontrivial += 1;
                            h.bump("needle-occurs");
                        } else {
                            h.bump("needle-absent");
                        }
                        for (c, w) in bad {
                            rep.violation(Violation {
                                cause: c.clone(),
                                order,
                                what: format!("haystack {:?} needle {:?}: {} {}", show(&hay), needle, c, w),
                                case: case.clone(),
                            });
                        }
                    }
                    Err(p) => rep.violation(Violation {
                        cause: p.key(),
                        order,
                        what: format!("haystack {:?} needle {:?}: {}", show(&hay), needle, p.show()),
                        case,
                    }),
                }
            }
            if idx == st && (bi == 0 || bi == blocks.len() / 2 || bi == blocks.len() - 1) {
                rep.sample(json!({"part": "a", "haystack": show(&hay), "needles": nd.len()}));
            }
        }
        rep.merge(&h);
    });

    // (b) one BFS per initial list length
    let all_ops = ops();
    let mut tot_states = 0u64;
    let mut tot_trans = 0u64;
    let mut overrun_states = 0u64;
    let mut maxd = 0;
    let mut sr_checks: Vec<Value> = vec![];
    for n in 0..=3usize {
        let viol: std::cell::RefCell<Option<(usize, Op, String, String)>> = Default::default();
        let idx_of: std::cell::Cell<usize> = Default::default();
        let b = Bfs::run(
            vec![init_state(n)],
            |s: &St| {
                (
                    impl_unread(&s.raw, &s.cur),
                    format!("{:?}|{:?}", s.raw, s.cur),
                    s.a.cur,
                    s.b.cur,
                    s.a_ok,
                    s.b_ok,
                    s.inserts,
                )
            },
            |s, _d| {
                let me = idx_of.get();
                let mut out = vec![];
                for &op in &all_ops {
                    if matches!(op, Op::Insert(_)) && s.inserts >= 2 {
                        continue;
                    }
                    match lock_step(s, op) {
                        Ok(t) => out.push((op, t)),
                        Err((c, w)) => {
                            let mut v = viol.borrow_mut();
                            if v.is_none() {
                                *v = Some((me, op, c, w));
                            }
                        }
                    }
                }
                out
            },
            |s, i, _d| {
                idx_of.set(i);
                if s.a.cur > s.a.items.len() as u128 {
                    // histories in which the cursor passed len
                }
            },
            depth,
            3_000_000,
        );
        tot_states += b.stats.states;
        tot_trans += b.stats.transitions;
        maxd = maxd.max(b.stats.max_depth);
        overrun_states += b.nodes.iter().filter(|(s, _, _)| s.a.cur > s.a.items.len() as u128).count() as u64;
        if b.stats.state_capped {
            rep.cap(&format!("cursor search for {} initial items hit the state cap", n));
        }
        // self-check of the explorer (not of clap): stateright must find the same number of
        // distinct states within the same depth on the same machine
        if tier == Tier::Thorough || n <= 1 {
            let sr_depth = depth.min(5);
            let mine = b.nodes.iter().filter(|x| x.2 <= sr_depth).count();
            let (theirs, held) = sr::explore(n, sr_depth);
            sr_checks.push(json!({"initial_items": n, "depth": sr_depth, "inhouse_bfs_states": mine, "stateright_states": theirs, "stateright_property_held": held}));
            if held && viol.borrow().is_none() && mine != theirs {
                rep.machinery(&format!("explorer self-check failed: in-house BFS found {} states within depth {}, stateright {}", mine, sr_depth, theirs));
            }
        }
        if let Some((at, op, c, w)) = viol.into_inner() {
            let mut tr: Vec<String> = b.trace(at).iter().map(|o| format!("{:?}", o)).collect();
            tr.push(format!("{:?}", op));
            rep.violation(Violation {
                cause: c.clone(),
                order: (1 << 50, n as u64 * 1000 + tr.len() as u64),
                what: format!("initial items {} history {:?}: {}", n, tr, w),
                case: json!({"part": "b", "initial_items": n, "ops": tr}),
            });
        }
        if n == 2 {
            let last = b.nodes.len() - 1;
            rep.sample(json!({"part": "b", "initial_items": n, "history": b.trace(last).iter().map(|o| format!("{:?}", o)).collect::<Vec<_>>()}));
        }
    }
    let mut h = Hist::new();
    h.states = tot_states;
    h.transitions = tot_trans;
    h.validated = tot_trans;
    h.evaluations = tot_trans;
    h.add("cursor-transitions", tot_trans);
    rep.merge(&h);
    rep.set(
        "cursor_search",
        json!({"states": tot_states, "transitions": tot_trans, "max_depth": maxd, "depth_bound": depth,
               "states_with_cursor_past_len": overrun_states, "explorer_self_check_vs_stateright": sr_checks}),
    );
    rep.finish(&recheck);
}
