//! C04 — typed values are exactly what the value parser's language admits.
//!
//! (a) ranged integer parsers: 8 target types x ranges built from boundary endpoints in 6 range
//!     forms (single and chained) x boundary candidate strings, against a big-integer reading.
//! (b) Bool / Boolish / Falsey x every case variant of every literal, one-edit neighbours,
//!     look-alikes, empty, whitespace, non-UTF-8.
//! (c) possible values: names/aliases/hidden x ignore_case x case variants and prefixes.
//! (d) explicit-state search over typed get/remove/clear histories on one ArgMatches.
//! Everything goes through a real `Command` parse, so the error kind and the argument it names
//! are observed as a user would.

use clap::builder::{PossibleValue, ValueParser};
use clap::{Arg, ArgAction, ArgGroup, ArgMatches, Command};
use mccore::report::run_replay;
use mccore::*;
use serde_json::{json, Value};

const PROP: &str = "C04";

// ---------------------------------------------------------------------------------------------
// (a)

#[derive(Clone, Copy, Debug, PartialEq)]
enum Form {
    Full,
    From(i128),
    To(i128),
    ToIncl(i128),
    Range(i128, i128),
    RangeIncl(i128, i128),
}

impl Form {
    fn contains(&self, v: i128) -> bool {
        match *self {
            Form::Full => true,
            Form::From(a) => v >= a,
            Form::To(b) => v < b,
            Form::ToIncl(b) => v <= b,
            Form::Range(a, b) => v >= a && v < b,
            Form::RangeIncl(a, b) => v >= a && v <= b,
        }
    }
}

macro_rules! ranged_i64 {
    ($name:ident, $t:ty) => {
        fn $name(forms: &[Form]) -> Option<ValueParser> {
            let mut p = clap::value_parser!($t);
            for f in forms {
                let c = |x: i128| -> Option<i64> { i64::try_from(x).ok() };
                p = match *f {
                    Form::Full => p.range(..),
                    Form::From(a) => p.range(c(a)?..),
                    Form::To(b) => p.range(..c(b)?),
                    Form::ToIncl(b) => p.range(..=c(b)?),
                    Form::Range(a, b) => p.range(c(a)?..c(b)?),
                    Form::RangeIncl(a, b) => p.range(c(a)?..=c(b)?),
                };
            }
            Some(p.into())
        }
    };
}
ranged_i64!(vp_i8, i8);
ranged_i64!(vp_i16, i16);
ranged_i64!(vp_i32, i32);
ranged_i64!(vp_i64, i64);
ranged_i64!(vp_u8, u8);
ranged_i64!(vp_u16, u16);
ranged_i64!(vp_u32, u32);

fn vp_u64(forms: &[Form]) -> Option<ValueParser> {
    let mut p = clap::value_parser!(u64);
    for f in forms {
        let c = |x: i128| -> Option<u64> { u64::try_from(x).ok() };
        p = match *f {
            Form::Full => p.range(..),
            Form::From(a) => p.range(c(a)?..),
            Form::To(b) => p.range(..c(b)?),
            Form::ToIncl(b) => p.range(..=c(b)?),
            Form::Range(a, b) => p.range(c(a)?..c(b)?),
            Form::RangeIncl(a, b) => p.range(c(a)?..=c(b)?),
        };
    }
    Some(p.into())
}

/// `Arg::value_parser(<range literal>)`: the `From<Range*<i64>> for ValueParser` conversions (one
/// range only; chained sets do not exist for this construction)
fn vp_i64_literal(forms: &[Form]) -> Option<ValueParser> {
    if forms.len() != 1 {
        return None;
    }
    let c = |x: i128| -> Option<i64> { i64::try_from(x).ok() };
    Some(match forms[0] {
        Form::Full => ValueParser::from(..),
        Form::From(a) => ValueParser::from(c(a)?..),
        Form::To(b) => ValueParser::from(..c(b)?),
        Form::ToIncl(b) => ValueParser::from(..=c(b)?),
        Form::Range(a, b) => ValueParser::from(c(a)?..c(b)?),
        Form::RangeIncl(a, b) => ValueParser::from(c(a)?..=c(b)?),
    })
}

/// the public constructors `RangedI64ValueParser::<u8>::new()` / `RangedU64ValueParser::<u16>::new()`
/// (bounds start out wider than the target type)
fn vp_u8_new(forms: &[Form]) -> Option<ValueParser> {
    let mut p = clap::builder::RangedI64ValueParser::<u8>::new();
    for f in forms {
        let c = |x: i128| -> Option<i64> { i64::try_from(x).ok() };
        p = match *f {
            Form::Full => p.range(..),
            Form::From(a) => p.range(c(a)?..),
            Form::To(b) => p.range(..c(b)?),
            Form::ToIncl(b) => p.range(..=c(b)?),
            Form::Range(a, b) => p.range(c(a)?..c(b)?),
            Form::RangeIncl(a, b) => p.range(c(a)?..=c(b)?),
        };
    }
    Some(p.into())
}
fn vp_u16_u64new(forms: &[Form]) -> Option<ValueParser> {
    let mut p = clap::builder::RangedU64ValueParser::<u16>::new();
    for f in forms {
        let c = |x: i128| -> Option<u64> { u64::try_from(x).ok() };
        p = match *f {
            Form::Full => p.range(..),
            Form::From(a) => p.range(c(a)?..),
            Form::To(b) => p.range(..c(b)?),
            Form::ToIncl(b) => p.range(..=c(b)?),
            Form::Range(a, b) => p.range(c(a)?..c(b)?),
            Form::RangeIncl(a, b) => p.range(c(a)?..=c(b)?),
        };
    }
    Some(p.into())
}

struct Target {
    name: &'static str,
    min: i128,
    max: i128,
    mk: fn(&[Form]) -> Option<ValueParser>,
    get: fn(&ArgMatches) -> Option<i128>,
    u64_backed: bool,
}

macro_rules! getter {
    ($t:ty) => {
        |m: &ArgMatches| m.try_get_one::<$t>("n").ok().flatten().map(|v| *v as i128)
    };
}

fn targets() -> Vec<Target> {
    vec![
        Target { name: "i8", min: i8::MIN as i128, max: i8::MAX as i128, mk: vp_i8, get: getter!(i8), u64_backed: false },
        Target { name: "i16", min: i16::MIN as i128, max: i16::MAX as i128, mk: vp_i16, get: getter!(i16), u64_backed: false },
        Target { name: "i32", min: i32::MIN as i128, max: i32::MAX as i128, mk: vp_i32, get: getter!(i32), u64_backed: false },
        Target { name: "i64", min: i64::MIN as i128, max: i64::MAX as i128, mk: vp_i64, get: getter!(i64), u64_backed: false },
        Target { name: "u8", min: 0, max: u8::MAX as i128, mk: vp_u8, get: getter!(u8), u64_backed: false },
        Target { name: "u16", min: 0, max: u16::MAX as i128, mk: vp_u16, get: getter!(u16), u64_backed: false },
        Target { name: "u32", min: 0, max: u32::MAX as i128, mk: vp_u32, get: getter!(u32), u64_backed: false },
        Target { name: "u64", min: 0, max: u64::MAX as i128, mk: vp_u64, get: getter!(u64), u64_backed: true },
        Target { name: "i64-from-range-literal", min: i64::MIN as i128, max: i64::MAX as i128, mk: vp_i64_literal, get: getter!(i64), u64_backed: false },
        Target { name: "u8-RangedI64ValueParser::new", min: 0, max: u8::MAX as i128, mk: vp_u8_new, get: getter!(u8), u64_backed: false },
        Target { name: "u16-RangedU64ValueParser::new", min: 0, max: u16::MAX as i128, mk: vp_u16_u64new, get: getter!(u16), u64_backed: true },
    ]
}

fn endpoints(t: &Target) -> Vec<i128> {
    let mut v = vec![t.min, t.min + 1, -1, 0, 1, t.max - 1, t.max];
    v.sort();
    v.dedup();
    v
}

fn range_sets(t: &Target, thorough: bool) -> Vec<Vec<Form>> {
    let e = endpoints(t);
    let mut single = vec![Form::Full];
    for &a in &e {
        single.push(Form::From(a));
        single.push(Form::To(a));
        single.push(Form::ToIncl(a));
        for &b in &e {
            if a <= b {
                single.push(Form::Range(a, b));
                single.push(Form::RangeIncl(a, b));
            }
        }
    }
    let mut out: Vec<Vec<Form>> = single.iter().map(|f| vec![*f]).collect();
    // chained: each range narrows the previous one
    let inner: Vec<i128> = if thorough { e.clone() } else { vec![t.min + 1, 0, 1, t.max - 1] };
    for &a in &inner {
        for &b in &inner {
            if a <= b {
                out.push(vec![Form::From(a), Form::To(b)]);
                out.push(vec![Form::From(a), Form::ToIncl(b)]);
                out.push(vec![Form::ToIncl(b), Form::From(a)]);
                out.push(vec![Form::To(b), Form::From(a)]);
                out.push(vec![Form::From(a), Form::From(b)]);
                out.push(vec![Form::ToIncl(b), Form::ToIncl(a)]);
                out.push(vec![Form::RangeIncl(a, b), Form::Full]);
            }
        }
    }
    out
}

fn candidates(t: &Target) -> Vec<Vec<u8>> {
    let mut vals: Vec<i128> = vec![];
    for e in endpoints(t) {
        vals.extend([e - 1, e, e + 1]);
    }
    vals.extend([
        i64::MIN as i128 - 1,
        i64::MIN as i128,
        i64::MAX as i128,
        i64::MAX as i128 + 1,
        u64::MAX as i128,
        u64::MAX as i128 + 1,
        100000000000000000000,
        -100000000000000000000,
        5,
        -5,
        200,
    ]);
    vals.sort();
    vals.dedup();
    let mut out: Vec<Vec<u8>> = vec![];
    for v in vals {
        let s = v.to_string();
        let (sign, digits) = match s.strip_prefix('-') {
            Some(d) => ("-", d.to_string()),
            None => ("", s.clone()),
        };
        out.push(s.clone().into_bytes());
        if sign.is_empty() {
            out.push(format!("+{}", digits).into_bytes());
        }
        out.push(format!("{}0{}", sign, digits).into_bytes());
        out.push(format!("{}00{}", sign, digits).into_bytes());
        out.push(format!(" {}", s).into_bytes());
        out.push(format!("{} ", s).into_bytes());
    }
    for j in ["", "+", "-", "-0", "+0", "+-1", "-+1", "1e3", "0x10", "1_0", "１", "١", "1.0", "1 2", "--1", "0b1", "٣", "1\n"] {
        out.push(j.as_bytes().to_vec());
    }
    out.push(b"\xff".to_vec());
    out.push(b"1\xff".to_vec());
    out.sort();
    out.dedup();
    out
}

/// R7: the big-integer reading. None = not a decimal integer; Some(None) = integer too large for i128.
fn read_int(s: &[u8]) -> Option<Option<i128>> {
    let st = std::str::from_utf8(s).ok()?;
    let (neg, digits) = match st.as_bytes().first()? {
        b'+' => (false, &st[1..]),
        b'-' => (true, &st[1..]),
        _ => (false, st),
    };
    if digits.is_empty() || !digits.bytes().all(|b| b.is_ascii_digit()) {
        return None;
    }
    let mut v: i128 = 0;
    for b in digits.bytes() {
        v = match v.checked_mul(10).and_then(|x| x.checked_add((b - b'0') as i128)) {
            Some(x) => x,
            None => return Some(None),
        };
    }
    Some(Some(if neg { -v } else { v }))
}

fn cmd_with(vp: ValueParser) -> Command {
    Command::new("prog").arg(Arg::new("n").long("n").value_parser(vp).action(ArgAction::Set))
}

fn argv_eq(s: &[u8]) -> Vec<std::ffi::OsString> {
    let mut t = b"--n=".to_vec();
    t.extend_from_slice(s);
    vec![std::ffi::OsString::from("prog"), os(&t)]
}

fn names_arg(e: &clap::Error) -> bool {
    e.context().any(|(k, v)| k == clap::error::ContextKind::InvalidArg && v.to_string().contains("--n")) || e.kind() == clap::error::ErrorKind::InvalidUtf8
}

fn check_int(t: &Target, forms: &[Form], cand: &[u8], h: &mut Hist) -> Vec<(String, String)> {
    let mut bad = vec![];
    let Some(vp) = (t.mk)(forms) else { return bad };
    let r = cmd_with(vp).try_get_matches_from(argv_eq(cand));
    let reading = read_int(cand);
    let in_lang = match reading {
        Some(Some(v)) => v >= t.min && v <= t.max && forms.iter().all(|f| f.contains(v)),
        _ => false,
    };
    let unspecified = t.u64_backed && cand.first() == Some(&b'-') && matches!(reading, Some(Some(0)));
    match r {
        Ok(m) => {
            let got = (t.get)(&m);
            h.bump("int/accepted");
            h.nontrivial += 1;
            if unspecified {
                return bad;
            }
            match (reading, got) {
                (Some(Some(v)), Some(g)) if in_lang => {
                    if g != v {
                        bad.push((format!("{}: typed value differs from the decimal reading of the string", t.name), format!("string {:?} ranges {:?}: got {} want {}", show(cand), forms, g, v)));
                    }
                }
                (_, g) => bad.push((
                    format!("{}: a string outside the parser's language is accepted", t.name),
                    format!("string {:?} ranges {:?}: accepted as {:?} (decimal reading {:?})", show(cand), forms, g, reading),
                )),
            }
        }
        Err(e) => {
            h.bump(&format!("int/rejected:{:?}", e.kind()));
            if in_lang && !unspecified {
                bad.push((
                    format!("{}: a decimal integer inside range and type is rejected", t.name),
                    format!("string {:?} ranges {:?}: {:?}", show(cand), forms, e.kind()),
                ));
            }
            let k = e.kind();
            if !matches!(k, clap::error::ErrorKind::ValueValidation | clap::error::ErrorKind::InvalidValue | clap::error::ErrorKind::InvalidUtf8) {
                bad.push((format!("{}: rejection is not a value error", t.name), format!("{:?}", k)));
            } else if !names_arg(&e) {
                bad.push((format!("{}: value error does not name the argument", t.name), format!("{:?}", e.context().map(|(k, v)| format!("{:?}={}", k, v)).collect::<Vec<_>>())));
            }
        }
    }
    bad
}

// ---------------------------------------------------------------------------------------------
// (b)
const TRUE_LITS: [&str; 6] = ["y", "yes", "t", "true", "on", "1"];
const FALSE_LITS: [&str; 6] = ["n", "no", "f", "false", "off", "0"];

fn case_variants(s: &str) -> Vec<String> {
    let cs: Vec<char> = s.chars().collect();
    let n = cs.len();
    let mut out = vec![];
    for mask in 0..(1u32 << n) {
        let mut v = String::new();
        for (i, c) in cs.iter().enumerate() {
            if mask & (1 << i) != 0 {
                v.extend(c.to_uppercase());
            } else {
                v.extend(c.to_lowercase());
            }
        }
        out.push(v);
    }
    out.sort();
    out.dedup();
    out
}

fn bool_candidates() -> Vec<Vec<u8>> {
    let mut out: Vec<Vec<u8>> = vec![];
    for l in TRUE_LITS.iter().chain(FALSE_LITS.iter()) {
        for v in case_variants(l) {
            out.push(v.clone().into_bytes());
            out.push(format!(" {}", v).into_bytes());
            out.push(format!("{} ", v).into_bytes());
        }
        // one-edit neighbours of the lower-case literal
        let b = l.as_bytes();
        for i in 0..b.len() {
            let mut d = b.to_vec();
            d.remove(i);
            out.push(d);
            let mut s = b.to_vec();
            s[i] = b'x';
            out.push(s);
        }
        for i in 0..=b.len() {
            let mut ins = b.to_vec();
            ins.insert(i, b'x');
            out.push(ins);
        }
    }
    for j in ["", "ｙ", "уes", "ｔｒｕｅ", "2", "-1", "tru", "fals", "yess", "nо", "ＯＮ", "truE\n", "TRUE", "False", "oN", "Off"] {
        out.push(j.as_bytes().to_vec());
    }
    out.push(b"\xff".to_vec());
    out.push(b"true\xff".to_vec());
    out.sort();
    out.dedup();
    out
}

fn check_bool(which: &str, cand: &[u8], h: &mut Hist) -> Vec<(String, String)> {
    let mut bad = vec![];
    let vp: ValueParser = match which {
        "bool" => clap::value_parser!(bool).into(),
        "boolish" => clap::builder::BoolishValueParser::new().into(),
        _ => clap::builder::FalseyValueParser::new().into(),
    };
    let r = cmd_with(vp).try_get_matches_from(argv_eq(cand));
    let st = std::str::from_utf8(cand).ok();
    let lit = |set: &[&str]| st.map(|s| set.iter().any(|l| l.eq_ignore_ascii_case(s))).unwrap_or(false);
    let want: Option<bool> = match which {
        "bool" => match st {
            Some("true") => Some(true),
            Some("false") => Some(false),
            _ => None,
        },
        "boolish" => {
            if lit(&TRUE_LITS) {
                Some(true)
            } else if lit(&FALSE_LITS) {
                Some(false)
            } else {
                None
            }
        }
        _ => st.map(|s| !(s.is_empty() || lit(&FALSE_LITS))),
    };
    match r {
        Ok(m) => {
            h.bump(&format!("{}/accepted", which));
            h.nontrivial += 1;
            let got = m.try_get_one::<bool>("n").ok().flatten().copied();
            if got != want || want.is_none() {
                bad.push((format!("{}: accepted set or truth value differs from the documented literals", which), format!("string {:?}: got {:?} want {:?}", show(cand), got, want)));
            }
        }
        Err(e) => {
            h.bump(&format!("{}/rejected", which));
            if want.is_some() {
                bad.push((format!("{}: a documented literal is rejected", which), format!("string {:?}: {:?}", show(cand), e.kind())));
            }
            if !matches!(e.kind(), clap::error::ErrorKind::ValueValidation | clap::error::ErrorKind::InvalidValue | clap::error::ErrorKind::InvalidUtf8) {
                bad.push((format!("{}: rejection is not a value error", which), format!("{:?}", e.kind())));
            } else if !names_arg(&e) {
                bad.push((format!("{}: value error does not name the argument", which), String::new()));
            }
        }
    }
    bad
}

// ---------------------------------------------------------------------------------------------
// (e) string-like parsers and adaptors: String, OsString, PathBuf, NonEmptyString, char, and
// map / try_map / plain-function parsers layered over them. Language and typed value are read
// off the documentation: String = valid UTF-8; OsString = anything; PathBuf = anything non-empty;
// NonEmptyString = non-empty valid UTF-8; char = exactly one scalar value; map(f) = f of the inner
// value; try_map / fn = inner language restricted to where the function answers Ok.
const STRLIKE: [&str; 9] = ["string", "osstring", "pathbuf", "nonempty", "char", "map-len", "try-map-even", "fn-even", "os-map-len"];

fn strlike_candidates() -> Vec<Vec<u8>> {
    let mut out: Vec<Vec<u8>> = vec![];
    let atoms: [&[u8]; 12] = [b"a", b"b", b" ", b"-", b"=", b",", "é".as_bytes(), "日".as_bytes(), b"\xff", b"\xc3", b"\n", b"0"];
    out.push(vec![]);
    for x in atoms {
        out.push(x.to_vec());
        for y in atoms {
            let mut v = x.to_vec();
            v.extend_from_slice(y);
            out.push(v.clone());
            for z in [&b"a"[..], "é".as_bytes(), b"\xff"] {
                let mut w = v.clone();
                w.extend_from_slice(z);
                out.push(w);
            }
        }
    }
    out.sort();
    out.dedup();
    out
}

#[derive(Debug, PartialEq)]
enum SWant {
    Str(String),
    Bytes(Vec<u8>),
    Char(char),
    Len(usize),
    Reject(&'static str),
}

fn even(s: &str) -> Result<String, String> {
    if s.chars().count() % 2 == 0 {
        Ok(s.to_string())
    } else {
        Err("odd number of characters".to_string())
    }
}

fn check_strlike(which: &str, cand: &[u8], h: &mut Hist) -> Vec<(String, String)> {
    use clap::builder::TypedValueParser;
    let mut bad = vec![];
    let vp: ValueParser = match which {
        "string" => clap::value_parser!(String).into(),
        "osstring" => clap::value_parser!(std::ffi::OsString).into(),
        "pathbuf" => clap::value_parser!(std::path::PathBuf).into(),
        "nonempty" => clap::builder::NonEmptyStringValueParser::new().into(),
        "char" => clap::value_parser!(char).into(),
        "map-len" => clap::builder::StringValueParser::new().map(|s| s.chars().count()).into(),
        "try-map-even" => clap::builder::StringValueParser::new().try_map(|s| even(&s)).into(),
        "fn-even" => ValueParser::new(|s: &str| even(s)),
        _ => clap::builder::OsStringValueParser::new().map(|s| os_bytes(&s).len()).into(),
    };
    let st = std::str::from_utf8(cand).ok();
    let want = match which {
        "string" => st.map(|s| SWant::Str(s.to_string())).unwrap_or(SWant::Reject("InvalidUtf8")),
        "osstring" => SWant::Bytes(cand.to_vec()),
        "pathbuf" => {
            if cand.is_empty() {
                SWant::Reject("InvalidValue")
            } else {
                SWant::Bytes(cand.to_vec())
            }
        }
        "nonempty" => match st {
            None => SWant::Reject("InvalidUtf8"),
            Some("") => SWant::Reject("InvalidValue"),
            Some(s) => SWant::Str(s.to_string()),
        },
        "char" => match st {
            None => SWant::Reject("InvalidUtf8"),
            Some(s) if s.chars().count() == 1 => SWant::Char(s.chars().next().unwrap()),
            Some(_) => SWant::Reject("ValueValidation"),
        },
        "map-len" => st.map(|s| SWant::Len(s.chars().count())).unwrap_or(SWant::Reject("InvalidUtf8")),
        "try-map-even" | "fn-even" => match st {
            None => SWant::Reject("InvalidUtf8"),
            Some(s) if s.chars().count() % 2 == 0 => SWant::Str(s.to_string()),
            Some(_) => SWant::Reject("ValueValidation"),
        },
        _ => SWant::Len(cand.len()),
    };
    let r = cmd_with(vp).try_get_matches_from(argv_eq(cand));
    match r {
        Ok(m) => {
            h.bump(&format!("{}/accepted", which));
            h.nontrivial += 1;
            let got = match which {
                "string" | "nonempty" | "try-map-even" | "fn-even" => m.try_get_one::<String>("n").ok().flatten().map(|s| SWant::Str(s.clone())),
                "osstring" => m.try_get_one::<std::ffi::OsString>("n").ok().flatten().map(|s| SWant::Bytes(os_bytes(s))),
                "pathbuf" => m.try_get_one::<std::path::PathBuf>("n").ok().flatten().map(|s| SWant::Bytes(os_bytes(s.as_os_str()))),
                "char" => m.try_get_one::<char>("n").ok().flatten().map(|c| SWant::Char(*c)),
                _ => m.try_get_one::<usize>("n").ok().flatten().map(|c| SWant::Len(*c)),
            };
            if got.as_ref() != Some(&want) {
                bad.push((format!("{}: accepted string or typed value differs from the parser's documented language", which), format!("string {:?}: got {:?} want {:?}", show(cand), got, want)));
            }
        }
        Err(e) => {
            h.bump(&format!("{}/rejected", which));
            let k = format!("{:?}", e.kind());
            match &want {
                SWant::Reject(kind) => {
                    if k != *kind {
                        bad.push((format!("{}: rejection carries the wrong error kind", which), format!("string {:?}: {} want {}", show(cand), k, kind)));
                    } else if !names_arg(&e) {
                        bad.push((format!("{}: value error does not name the argument", which), String::new()));
                    }
                }
                w => bad.push((format!("{}: a string inside the parser's language is rejected", which), format!("string {:?}: {} (want {:?})", show(cand), k, w))),
            }
        }
    }
    bad
}

// ---------------------------------------------------------------------------------------------
// (c)
fn pv_candidates() -> Vec<Vec<u8>> {
    let mut out: Vec<Vec<u8>> = vec![];
    for n in ["fast", "Slow", "é", "quick", "hid", "ß"] {
        for v in case_variants(n) {
            out.push(v.into_bytes());
        }
        for cut in 1..n.len() {
            if n.is_char_boundary(cut) {
                out.push(n[..cut].as_bytes().to_vec());
            }
        }
        out.push(format!("{}x", n).into_bytes());
        out.push(format!(" {}", n).into_bytes());
    }
    for j in ["", "e\u{301}", "SS", "ss", "FAST", "fAsT"] {
        out.push(j.as_bytes().to_vec());
    }
    out.push(b"fast\xff".to_vec());
    out.sort();
    out.dedup();
    out
}

fn check_pv(ignore_case: bool, cand: &[u8], h: &mut Hist) -> Vec<(String, String)> {
    let mut bad = vec![];
    let pvs = vec![
        PossibleValue::new("fast").alias("quick"),
        PossibleValue::new("Slow"),
        PossibleValue::new("é"),
        PossibleValue::new("hid").hide(true),
        PossibleValue::new("ß"),
    ];
    let names = ["fast", "quick", "Slow", "é", "hid", "ß"];
    let cmd = Command::new("prog").arg(Arg::new("n").long("n").value_parser(pvs).ignore_case(ignore_case));
    let r = cmd.try_get_matches_from(argv_eq(cand));
    let st = std::str::from_utf8(cand).ok();
    let want = st
        .map(|s| {
            names.iter().any(|n| {
                if ignore_case {
                    // case-insensitive: simple (one-to-one) Unicode case folding on both sides
                    n.to_lowercase() == s.to_lowercase()
                } else {
                    *n == s
                }
            })
        })
        .unwrap_or(false);
    // `ß` upper-cases to `SS`; whether `SS`/`ss` match `ß` case-insensitively is not pinned
    let unspecified = ignore_case && matches!(st, Some("SS") | Some("ss") | Some("Ss") | Some("sS"));
    match r {
        Ok(m) => {
            h.bump("pv/accepted");
            h.nontrivial += 1;
            if !want && !unspecified {
                bad.push(("possible values: a string that is no declared name or alias is accepted".into(), format!("string {:?} ignore_case={}", show(cand), ignore_case)));
            }
            let got = m.try_get_one::<String>("n").ok().flatten().cloned();
            if got.as_deref().map(|g| g.as_bytes()) != Some(cand) {
                bad.push(("possible values: the typed value is not the raw string".into(), format!("got {:?}", got)));
            }
        }
        Err(e) => {
            h.bump("pv/rejected");
            if want && !unspecified {
                bad.push(("possible values: a declared name or alias is rejected".into(), format!("string {:?} ignore_case={}: {:?}", show(cand), ignore_case, e.kind())));
            }
            if !matches!(e.kind(), clap::error::ErrorKind::InvalidValue | clap::error::ErrorKind::InvalidUtf8 | clap::error::ErrorKind::ValueValidation) {
                bad.push(("possible values: rejection is not a value error".into(), format!("{:?}", e.kind())));
            } else if !names_arg(&e) {
                bad.push(("possible values: value error does not name the argument".into(), String::new()));
            }
        }
    }
    bad
}

// ---------------------------------------------------------------------------------------------
// (d) typed access histories

fn access_matches() -> ArgMatches {
    Command::new("prog")
        .arg(Arg::new("s").long("s").action(ArgAction::Append))
        .arg(Arg::new("n").long("n").value_parser(clap::value_parser!(u8)))
        .arg(Arg::new("absent").long("absent"))
        // present on the line, but without a value: its declared type is still u8
        .arg(Arg::new("e").long("e").num_args(0..=1).value_parser(clap::value_parser!(u8)))
        .group(ArgGroup::new("g").arg("s"))
        .try_get_matches_from(["prog", "--s", "a", "--n", "7", "--s", "b", "--e"])
        .unwrap()
}

fn dump(m: &ArgMatches) -> String {
    let mut s = String::new();
    for id in ["s", "n", "absent", "g", "e"] {
        let raw: Vec<Vec<String>> = m
            .try_get_raw_occurrences(id)
            .ok()
            .flatten()
            .map(|o| o.map(|g| g.map(|v| v.to_string_lossy().to_string()).collect()).collect())
            .unwrap_or_default();
        let present = m.try_contains_id(id).unwrap_or(false);
        let src = if present { format!("{:?}", m.value_source(id)) } else { "-".into() };
        let idx: Vec<usize> = if present { m.indices_of(id).map(|i| i.collect()).unwrap_or_default() } else { vec![] };
        let typed = match id {
            "s" => format!("{:?}", m.try_get_many::<String>(id).ok().flatten().map(|v| v.cloned().collect::<Vec<_>>())),
            "n" | "e" => format!("{:?}", m.try_get_one::<u8>(id).ok().flatten()),
            "g" => format!("{:?}", m.try_get_many::<clap::Id>(id).ok().flatten().map(|v| v.map(|i| i.to_string()).collect::<Vec<_>>())),
            _ => format!("{:?}", m.try_get_one::<String>(id).ok().flatten()),
        };
        s.push_str(&format!("{}: present={} src={} raw={:?} idx={:?} typed={};", id, present, src, raw, idx, typed));
    }
    s
}

#[derive(Clone, Debug, PartialEq, Eq)]
struct AOp {
    op: &'static str,
    id: &'static str,
    ty: &'static str,
}

fn access_ops() -> Vec<AOp> {
    let mut v = vec![];
    for id in ["s", "n", "absent", "g", "e", "zz"] {
        for op in ["get_one", "get_many", "get_occurrences", "remove_one", "remove_many", "remove_occurrences"] {
            for ty in ["String", "u8", "Id"] {
                v.push(AOp { op, id, ty });
            }
        }
        for op in ["get_raw", "contains_id", "clear_id"] {
            v.push(AOp { op, id, ty: "-" });
        }
    }
    v
}

/// Outcome classes of one typed access.
#[derive(Debug, PartialEq, Eq, Clone)]
enum AOut {
    Unknown,
    Downcast,
    None,
    Vals(Vec<String>),
    Bool(bool),
}

fn do_typed<T: Clone + Send + Sync + 'static + std::fmt::Debug>(m: &mut ArgMatches, op: &str, id: &str) -> AOut {
    use clap::parser::MatchesError as ME;
    let conv = |e: ME| match e {
        ME::Downcast { .. } => AOut::Downcast,
        ME::UnknownArgument { .. } => AOut::Unknown,
        _ => AOut::Unknown,
    };
    let f = |v: &T| format!("{:?}", v);
    match op {
        "get_one" => match m.try_get_one::<T>(id) {
            Ok(Some(v)) => AOut::Vals(vec![f(v)]),
            Ok(None) => AOut::None,
            Err(e) => conv(e),
        },
        "get_many" => match m.try_get_many::<T>(id) {
            Ok(Some(v)) => AOut::Vals(v.map(f).collect()),
            Ok(None) => AOut::None,
            Err(e) => conv(e),
        },
        // occurrences keep their structure: one "[v, w]" string per occurrence (empty ones too)
        "get_occurrences" => match m.try_get_occurrences::<T>(id) {
            Ok(Some(v)) => AOut::Vals(v.map(|o| format!("[{}]", o.map(f).collect::<Vec<_>>().join(", "))).collect()),
            Ok(None) => AOut::None,
            Err(e) => conv(e),
        },
        "remove_one" => match m.try_remove_one::<T>(id) {
            Ok(Some(v)) => AOut::Vals(vec![f(&v)]),
            Ok(None) => AOut::None,
            Err(e) => conv(e),
        },
        "remove_many" => match m.try_remove_many::<T>(id) {
            Ok(Some(v)) => AOut::Vals(v.map(|x| f(&x)).collect()),
            Ok(None) => AOut::None,
            Err(e) => conv(e),
        },
        _ => match m.try_remove_occurrences::<T>(id) {
            Ok(Some(v)) => AOut::Vals(v.map(|o| format!("[{}]", o.map(|x| f(&x)).collect::<Vec<_>>().join(", "))).collect()),
            Ok(None) => AOut::None,
            Err(e) => conv(e),
        },
    }
}

fn do_access(m: &mut ArgMatches, o: &AOp) -> AOut {
    use clap::parser::MatchesError as ME;
    match o.op {
        "get_raw" => match m.try_get_raw(o.id) {
            Ok(Some(v)) => AOut::Vals(v.map(|x| format!("{:?}", x.to_string_lossy())).collect()),
            Ok(None) => AOut::None,
            Err(ME::UnknownArgument { .. }) => AOut::Unknown,
            Err(_) => AOut::Downcast,
        },
        "contains_id" => match m.try_contains_id(o.id) {
            Ok(b) => AOut::Bool(b),
            Err(_) => AOut::Unknown,
        },
        "clear_id" => match m.try_clear_id(o.id) {
            Ok(b) => AOut::Bool(b),
            Err(_) => AOut::Unknown,
        },
        op => match o.ty {
            "String" => do_typed::<String>(m, op, o.id),
            "u8" => do_typed::<u8>(m, op, o.id),
            _ => do_typed::<clap::Id>(m, op, o.id),
        },
    }
}

/// The map model: id -> (type, values) for present ids.
#[derive(Clone, Debug, PartialEq, Eq, Hash)]
struct AModel {
    s: bool,
    n: bool,
    g: bool,
    e: bool,
}

fn model_access(md: &mut AModel, o: &AOp) -> AOut {
    let (present, ty, vals): (bool, &str, Vec<String>) = match o.id {
        "s" => (md.s, "String", vec!["\"a\"".into(), "\"b\"".into()]),
        "n" => (md.n, "u8", vec!["7".into()]),
        "g" => (md.g, "Id", vec!["\"s\"".into(), "\"s\"".into()]),
        "absent" => (false, "String", vec![]),
        "e" => (md.e, "u8", vec![]),
        _ => return AOut::Unknown,
    };
    let remove = |md: &mut AModel| match o.id {
        "s" => md.s = false,
        "n" => md.n = false,
        "g" => md.g = false,
        "e" => md.e = false,
        _ => {}
    };
    match o.op {
        "get_raw" => {
            if present {
                AOut::Vals(match o.id {
                    "s" => vec!["\"a\"".into(), "\"b\"".into()],
                    "n" => vec!["\"7\"".into()],
                    "e" => vec![],
                    _ => vec!["\"s\"".into(), "\"s\"".into()],
                })
            } else {
                AOut::None
            }
        }
        "contains_id" => AOut::Bool(present),
        "clear_id" => {
            remove(md);
            AOut::Bool(present)
        }
        op => {
            if !present {
                // the type of an absent argument is still known: a wrong type is still a downcast
                // error for defined arguments; clap reports it only when the argument is present
                return AOut::None;
            }
            if o.ty != ty {
                return AOut::Downcast;
            }
            let all = vals.clone();
            if op.starts_with("remove") {
                remove(md);
            }
            if op.ends_with("_one") {
                // a present argument without values has no first value
                return match all.first() {
                    Some(v) => AOut::Vals(vec![v.clone()]),
                    None => AOut::None,
                };
            }
            if op.ends_with("_occurrences") {
                // every occurrence of these arguments holds one value, except `e`: one occurrence
                // without any
                return AOut::Vals(if o.id == "e" { vec!["[]".to_string()] } else { all.iter().map(|v| format!("[{}]", v)).collect() });
            }
            AOut::Vals(all)
        }
    }
}

fn access_search() -> (u64, u64, Vec<(String, String, Vec<String>)>) {
    let ops = access_ops();
    let viol: std::cell::RefCell<Vec<(String, String, usize, String)>> = Default::default();
    let cur: std::cell::Cell<usize> = Default::default();
    let b = Bfs::run(
        vec![(access_matches(), AModel { s: true, n: true, g: true, e: true })],
        |(m, md): &(ArgMatches, AModel)| (dump(m), md.clone()),
        |(m, md), _d| {
            let me = cur.get();
            let mut out = vec![];
            for o in &ops {
                let mut m2 = m.clone();
                let mut md2 = md.clone();
                let before = dump(&m2);
                let got = match catch(|| do_access(&mut m2, o)) {
                    Ok(g) => g,
                    Err(p) => {
                        viol.borrow_mut().push((format!("typed access panics: {}", p.key()), p.show(), me, format!("{:?}", o)));
                        continue;
                    }
                };
                let want = model_access(&mut md2, o);
                // absent-but-defined with a wrong type: either None or Downcast is acceptable
                let lenient = want == AOut::None && got == AOut::Downcast;
                if got != want && !lenient {
                    viol.borrow_mut().push((format!("{} does not behave like the map model", o.op), format!("{:?}: got {:?} want {:?}", o, got, want), me, format!("{:?}", o)));
                }
                let after = dump(&m2);
                let failed = matches!(got, AOut::Unknown | AOut::Downcast);
                // a successful remove/clear of an id that is present takes it away (also when it
                // holds no value and the call therefore answers None)
                let was_present = match o.id {
                    "s" => md.s,
                    "n" => md.n,
                    "g" => md.g,
                    "e" => md.e,
                    _ => false,
                };
                let removing = (o.op.starts_with("remove") || o.op == "clear_id") && !failed && was_present;
                if !removing && after != before {
                    viol.borrow_mut().push((
                        if failed { "a failed typed access disturbed the stored values".to_string() } else { "a read-only access changed the stored values".to_string() },
                        format!("{:?}: before {} after {}", o, before, after),
                        me,
                        format!("{:?}", o),
                    ));
                }
                out.push((format!("{:?}", o), (m2, md2)));
            }
            out
        },
        |(m, md), i, _d| {
            cur.set(i);
            // the implementation's presence must equal the model's in every state
            for (id, want) in [("s", md.s), ("n", md.n), ("g", md.g)] {
                if m.try_contains_id(id).unwrap_or(false) != want {
                    viol.borrow_mut().push(("presence after a history differs from the map model".into(), format!("{}: model {}", id, want), i, String::new()));
                }
            }
        },
        16,
        10000,
    );
    let mut out = vec![];
    let mut seen = std::collections::BTreeSet::new();
    for (c, w, idx, last) in viol.into_inner() {
        if seen.insert(c.clone()) {
            let mut tr = b.trace(idx);
            if !last.is_empty() {
                tr.push(last);
            }
            out.push((c, w, tr));
        }
    }
    (b.stats.states, b.stats.transitions, out)
}

// ---------------------------------------------------------------------------------------------

fn forms_json(f: &[Form]) -> Value {
    json!(f.iter().map(|x| format!("{:?}", x)).collect::<Vec<_>>())
}
fn forms_parse(v: &Value) -> Vec<Form> {
    let num = |s: &str| s.trim().parse::<i128>().unwrap_or(0);
    v.as_array()
        .map(|a| {
            a.iter()
                .filter_map(|x| {
                    let s = x.as_str()?;
                    let inner = s.split_once('(').map(|p| p.1.trim_end_matches(')'));
                    Some(match (s.split('(').next()?, inner) {
                        ("Full", _) => Form::Full,
                        ("From", Some(i)) => Form::From(num(i)),
                        ("To", Some(i)) => Form::To(num(i)),
                        ("ToIncl", Some(i)) => Form::ToIncl(num(i)),
                        ("Range", Some(i)) => {
                            let (a, b) = i.split_once(',')?;
                            Form::Range(num(a), num(b))
                        }
                        ("RangeIncl", Some(i)) => {
                            let (a, b) = i.split_once(',')?;
                            Form::RangeIncl(num(a), num(b))
                        }
                        _ => return None,
                    })
                })
                .collect()
        })
        .unwrap_or_default()
}

/// (f) flag actions hand the literal `true` / `false` to the argument's value parser, also when the
/// flag is absent (documented on `ArgAction::SetTrue` / `SetFalse`, incl. the mapped-to-usize example)
const FLAG_PARSERS: [&str; 7] = ["bool", "boolish", "falsey", "boolish-negated", "fn-length-is-4", "reject-true", "mapped-to-usize"];

fn check_flag(set_true: bool, which: &str, given: bool, h: &mut Hist) -> Vec<(String, String)> {
    use clap::builder::TypedValueParser;
    let mut bad = vec![];
    let vp: clap::builder::ValueParser = match which {
        "bool" => clap::value_parser!(bool).into(),
        "boolish" => clap::builder::BoolishValueParser::new().into(),
        "falsey" => clap::builder::FalseyValueParser::new().into(),
        "boolish-negated" => clap::builder::BoolishValueParser::new().map(|b| !b).into(),
        "fn-length-is-4" => clap::builder::ValueParser::new(|s: &str| Ok::<bool, std::convert::Infallible>(s.len() == 4)),
        "reject-true" => clap::builder::ValueParser::new(|s: &str| if s == "true" { Err("no".to_string()) } else { Ok(false) }),
        _ => clap::builder::BoolValueParser::new().map(|b| -> usize { if b { 10 } else { 5 } }).into(),
    };
    let literal = if given == set_true { "true" } else { "false" };
    // what the parser makes of the literal, computed by hand
    let want: Option<String> = match which {
        "bool" | "boolish" | "falsey" => Some((literal == "true").to_string()),
        "boolish-negated" => Some((literal != "true").to_string()),
        "fn-length-is-4" => Some((literal.len() == 4).to_string()),
        "reject-true" => if literal == "true" { None } else { Some("false".into()) },
        _ => Some(if literal == "true" { "10".into() } else { "5".into() }),
    };
    if want.is_none() && !given {
        // a default the parser rejects: not pinned
        return bad;
    }
    let action = if set_true { clap::ArgAction::SetTrue } else { clap::ArgAction::SetFalse };
    let cmd = clap::Command::new("prog").arg(clap::Arg::new("f").long("f").action(action).value_parser(vp));
    let argv: Vec<&str> = if given { vec!["prog", "--f"] } else { vec!["prog"] };
    let got: Option<String> = match cmd.try_get_matches_from(argv) {
        Ok(m) => {
            if which == "mapped-to-usize" {
                m.try_get_one::<usize>("f").ok().flatten().map(|v| v.to_string())
            } else {
                m.try_get_one::<bool>("f").ok().flatten().map(|v| v.to_string())
            }
        }
        Err(e) => {
            if want.is_none() && !matches!(e.kind(), clap::error::ErrorKind::ValueValidation | clap::error::ErrorKind::InvalidValue) {
                bad.push(("a flag literal the parser rejects gives an error of another kind".into(), format!("{:?}", e.kind())));
            }
            None
        }
    };
    h.nontrivial += 1;
    if got != want {
        bad.push((
            "a flag's value is not what its value parser makes of the action's literal".into(),
            format!("{} parser {} given={}: literal {:?} -> want {:?}, got {:?}", if set_true { "SetTrue" } else { "SetFalse" }, which, given, literal, want, got),
        ));
    }
    bad
}

/// (f') an argument that is only told `num_args(0)`: action SetTrue, bool parser and the default
/// `false` are all implied (documented on `Arg::num_args` / `ArgAction::SetTrue`)
fn check_implied_flag(given: bool, h: &mut Hist) -> Vec<(String, String)> {
    let mut bad = vec![];
    let cmd = clap::Command::new("prog").arg(clap::Arg::new("f").long("f").num_args(0));
    let argv: Vec<&str> = if given { vec!["prog", "--f"] } else { vec!["prog"] };
    match cmd.try_get_matches_from(argv) {
        Ok(m) => {
            h.nontrivial += 1;
            let got = m.try_get_one::<bool>("f").map(|v| v.copied());
            if !matches!(got, Ok(Some(v)) if v == given) {
                bad.push(("an argument with only num_args(0) is not a bool flag with default false".into(), format!("given={}: typed bool access gives {:?}", given, got.map_err(|e| e.to_string()))));
            }
            let src = m.value_source("f");
            let want_src = if given { clap::parser::ValueSource::CommandLine } else { clap::parser::ValueSource::DefaultValue };
            if src != Some(want_src) {
                bad.push(("an argument with only num_args(0) is not a bool flag with default false".into(), format!("given={}: value source {:?}", given, src)));
            }
        }
        Err(e) => bad.push(("an argument with only num_args(0) is not a bool flag with default false".into(), format!("given={}: {:?}", given, e.kind()))),
    }
    bad
}

fn recheck(case: &Value) -> Vec<Violation> {
    let mut h = Hist::new();
    let cand = unhex(case["string_hex"].as_str().unwrap_or(""));
    let r = match case["part"].as_str().unwrap_or("") {
        "int" => {
            let Some(t) = targets().into_iter().find(|t| Some(t.name) == case["target"].as_str()) else { return vec![] };
            let forms = forms_parse(&case["ranges"]);
            catch(|| check_int(&t, &forms, &cand, &mut h))
        }
        "bool" => {
            let which = case["parser"].as_str().unwrap_or("bool").to_string();
            catch(|| check_bool(&which, &cand, &mut h))
        }
        "pv" => {
            let ic = case["ignore_case"].as_bool().unwrap_or(false);
            catch(|| check_pv(ic, &cand, &mut h))
        }
        "implied-flag" => {
            let given = case["given"].as_bool().unwrap_or(true);
            catch(|| check_implied_flag(given, &mut h))
        }
        "flag" => {
            let which = case["parser"].as_str().unwrap_or("bool").to_string();
            let st = case["set_true"].as_bool().unwrap_or(true);
            let given = case["given"].as_bool().unwrap_or(true);
            catch(|| check_flag(st, &which, given, &mut h))
        }
        "strlike" => {
            let which = case["parser"].as_str().unwrap_or("string").to_string();
            catch(|| check_strlike(&which, &cand, &mut h))
        }
        _ => catch(|| access_search().2.into_iter().map(|(c, w, tr)| (c, format!("history {:?}: {}", tr, w))).collect()),
    };
    match r {
        Ok(b) => b.into_iter().map(|(c, w)| Violation { cause: c, order: (0, 0), what: w, case: case.clone() }).collect(),
        Err(p) => vec![Violation { cause: p.key(), order: (0, 0), what: p.show(), case: case.clone() }],
    }
}

fn main() {
    let cli = Cli::parse();
    install_silent_hook();
    mcmodel::fix_env();
    let tier = match &cli.mode {
        Mode::Replay(p) => run_replay(PROP, p, &recheck),
        Mode::Explore(t) => *t,
    };
    let rep = Report::new(PROP, tier, cli.seed);
    let thorough = tier == Tier::Thorough;
    rep.rule("(a) target type x range set (single ranges in 6 forms over boundary endpoints, chained pairs) x candidate string, parsed through a real Command (`--n=<string>`), against a big-integer reading; range sets the constructor's own debug assertions reject are skipped. (b) three bool-like parsers x all case variants / one-edit neighbours / look-alikes of every literal. (c) possible values x ignore_case x case variants, prefixes, aliases. (e) String / OsString / PathBuf / NonEmptyString / char parsers and map / try_map / function adaptors x every byte string of <=3 atoms incl. empty, multi-byte and invalid UTF-8. (d) BFS to fixpoint over typed access histories (5 ids x 6 typed ops x 3 type parameters + 3 untyped ops) on one ArgMatches, deduplicated on a full dump, in lock-step with a map model. non-trivial = accepted values whose typed result was compared");
    rep.assume("`-0` (and -00…) for the u64-backed parser is unspecified (Rust's unsigned FromStr rejects it, the i64-backed parsers accept it)");
    rep.assume("possible values with ignore_case are compared with simple Unicode case folding (clap built with the `unicode` feature); `SS`/`ss` against `ß` is not pinned");
    rep.assume("typed access to an absent-but-defined argument with a wrong type may answer None or a downcast error");

    // (a)
    let ts = targets();
    let mut blocks: Vec<(usize, Vec<Form>)> = vec![];
    for (ti, t) in ts.iter().enumerate() {
        for r in range_sets(t, thorough) {
            blocks.push((ti, r));
        }
    }
    let cands: Vec<Vec<Vec<u8>>> = ts.iter().map(candidates).collect();
    let skipped = std::sync::atomic::AtomicU64::new(0);
    par_blocks(blocks.len(), |bi, _| {
        let (ti, forms) = &blocks[bi];
        let t = &ts[*ti];
        // validity gate of the range constructor itself
        if catch(|| (t.mk)(forms)).map(|o| o.is_none()).unwrap_or(true) {
            skipped.fetch_add(1, std::sync::atomic::Ordering::Relaxed);
            return;
        }
        let mut h = Hist::new();
        for (ci, c) in cands[*ti].iter().enumerate() {
            h.evaluations += 1;
            h.states += 1;
            h.transitions += 1;
            h.validated += 1;
            let mk = || json!({"part": "int", "target": t.name, "ranges": forms_json(forms), "string_hex": hex(c), "string_shown": show(c)});
            match catch(|| check_int(t, forms, c, &mut h)) {
                Ok(bad) => {
                    for (cause, w) in bad {
                        rep.violation(Violation { cause: cause.clone(), order: (bi as u64, ci as u64), what: format!("{}: {}", cause, w), case: mk() });
                    }
                }
                Err(p) => rep.violation(Violation { cause: p.key(), order: (bi as u64, ci as u64), what: format!("{} ranges {:?} string {:?}: {}", t.name, forms, show(c), p.show()), case: mk() }),
            }
        }
        if bi == 0 || bi == blocks.len() - 1 {
            rep.sample(json!({"part": "int", "target": t.name, "ranges": forms_json(forms), "candidates": cands[*ti].len()}));
        }
        rep.merge(&h);
    });
    rep.set("int", json!({"targets": ts.iter().map(|t| t.name).collect::<Vec<_>>(), "range_sets": blocks.len(), "range_sets_rejected_by_constructor": skipped.load(std::sync::atomic::Ordering::Relaxed), "candidate_strings_per_target": cands.iter().map(|c| c.len()).collect::<Vec<_>>()}));

    // (b) (c)
    let mut h = Hist::new();
    let bc = bool_candidates();
    for which in ["bool", "boolish", "falsey"] {
        for (ci, c) in bc.iter().enumerate() {
            h.evaluations += 1;
            h.states += 1;
            h.transitions += 1;
            h.validated += 1;
            let mk = || json!({"part": "bool", "parser": which, "string_hex": hex(c), "string_shown": show(c)});
            match catch(|| check_bool(which, c, &mut h)) {
                Ok(bad) => {
                    for (cause, w) in bad {
                        rep.violation(Violation { cause: cause.clone(), order: (1 << 40, ci as u64), what: format!("{}: {}", cause, w), case: mk() });
                    }
                }
                Err(p) => rep.violation(Violation { cause: p.key(), order: (1 << 40, ci as u64), what: p.show(), case: mk() }),
            }
        }
    }
    // (f)
    for set_true in [true, false] {
        for which in FLAG_PARSERS {
            for given in [false, true] {
                h.evaluations += 1;
                h.states += 1;
                h.transitions += 1;
                h.validated += 1;
                let mk = || json!({"part": "flag", "parser": which, "set_true": set_true, "given": given});
                match catch(|| check_flag(set_true, which, given, &mut h)) {
                    Ok(bad) => {
                        for (cause, w) in bad {
                            rep.violation(Violation { cause: cause.clone(), order: (1 << 39, 0), what: format!("{}: {}", cause, w), case: mk() });
                        }
                    }
                    Err(p) => rep.violation(Violation { cause: p.key(), order: (1 << 39, 0), what: p.show(), case: mk() }),
                }
            }
        }
    }
    for given in [false, true] {
        h.evaluations += 1;
        h.states += 1;
        h.transitions += 1;
        h.validated += 1;
        let mk = || json!({"part": "implied-flag", "given": given});
        match catch(|| check_implied_flag(given, &mut h)) {
            Ok(bad) => {
                for (cause, w) in bad {
                    rep.violation(Violation { cause: cause.clone(), order: (1 << 39, 1), what: format!("{}: {}", cause, w), case: mk() });
                }
            }
            Err(p) => rep.violation(Violation { cause: p.key(), order: (1 << 39, 1), what: p.show(), case: mk() }),
        }
    }
    let pc = pv_candidates();
    for ic in [false, true] {
        for (ci, c) in pc.iter().enumerate() {
            h.evaluations += 1;
            h.states += 1;
            h.transitions += 1;
            h.validated += 1;
            let mk = || json!({"part": "pv", "ignore_case": ic, "string_hex": hex(c), "string_shown": show(c)});
            match catch(|| check_pv(ic, c, &mut h)) {
                Ok(bad) => {
                    for (cause, w) in bad {
                        rep.violation(Violation { cause: cause.clone(), order: (2 << 40, ci as u64), what: format!("{}: {}", cause, w), case: mk() });
                    }
                }
                Err(p) => rep.violation(Violation { cause: p.key(), order: (2 << 40, ci as u64), what: p.show(), case: mk() }),
            }
        }
    }
    let sc = strlike_candidates();
    for which in STRLIKE {
        for (ci, c) in sc.iter().enumerate() {
            h.evaluations += 1;
            h.states += 1;
            h.transitions += 1;
            h.validated += 1;
            let mk = || json!({"part": "strlike", "parser": which, "string_hex": hex(c), "string_shown": show(c)});
            match catch(|| check_strlike(which, c, &mut h)) {
                Ok(bad) => {
                    for (cause, w) in bad {
                        rep.violation(Violation { cause: cause.clone(), order: (3 << 40, ci as u64), what: format!("{}: {}", cause, w), case: mk() });
                    }
                }
                Err(p) => rep.violation(Violation { cause: p.key(), order: (3 << 40, ci as u64), what: p.show(), case: mk() }),
            }
        }
    }
    rep.set("string_like", json!({"candidate_strings": sc.len(), "parsers": STRLIKE}));
    rep.set("bool_like", json!({"candidate_strings": bc.len(), "parsers": 3}));
    rep.set("possible_values", json!({"candidate_strings": pc.len(), "ignore_case": [false, true]}));
    rep.sample(json!({"part": "bool", "example": "oN"}));

    // (d)
    match catch(access_search) {
        Ok((states, trans, viols)) => {
            h.states += states;
            h.transitions += trans;
            h.evaluations += trans;
            h.validated += trans;
            rep.set("typed_access_search", json!({"states": states, "transitions": trans, "ops": access_ops().len(), "to_fixpoint": true}));
            for (c, w, tr) in viols {
                rep.violation(Violation { cause: c.clone(), order: (3 << 40, tr.len() as u64), what: format!("history {:?}: {} ({})", tr, c, w), case: json!({"part": "access", "history": tr}) });
            }
            rep.sample(json!({"part": "access", "initial": dump(&access_matches())}));
        }
        Err(p) => rep.violation(Violation { cause: p.key(), order: (3 << 40, 0), what: p.show(), case: json!({"part": "access"}) }),
    }
    rep.merge(&h);
    rep.finish(&recheck);
}
