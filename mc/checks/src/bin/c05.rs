//! C05 — everything after `--` is delivered verbatim as positional values.
//!
//! Space: trailing-positional configurations (shape x parser x <=2 surrounding features) x spelled
//! prefixes x tails in T^{<=k} over hostile token shapes. For each (config, prefix, tail) the line
//! `prefix -- tail` is parsed, and also `prefix` alone (the differential baseline).

use mccore::report::run_replay;
use mccore::*;
use mcmodel::*;
use serde_json::{json, Value};

const PROP: &str = "C05";

#[derive(Clone, Copy, Debug, PartialEq, Eq)]
enum Feat {
    InferSub,
    Precedence,
    ArgsConflictSub,
    External,
    Delim,
    DelimDont,
    DisableHelp,
    Version,
    InferLong,
    Opt1to2,
    HyphenRest,
    TrailingVarArg,
    AllowMissing,
    SubAliasHelp,
    /// `--opt[=v]` with a delimiter and a missing-value default that contains the delimiter
    OptMissingDelim,
}
const FEATS: [Feat; 15] = [
    Feat::InferSub,
    Feat::Precedence,
    Feat::ArgsConflictSub,
    Feat::External,
    Feat::Delim,
    Feat::DelimDont,
    Feat::DisableHelp,
    Feat::Version,
    Feat::InferLong,
    Feat::Opt1to2,
    Feat::HyphenRest,
    Feat::TrailingVarArg,
    Feat::AllowMissing,
    Feat::SubAliasHelp,
    Feat::OptMissingDelim,
];

struct Cfg {
    name: String,
    spec: CmdSpec,
    delim_split: bool,
    os: bool,
    nfeat: usize,
}

fn configs(max_feats: usize) -> Vec<Cfg> {
    let mut out = vec![];
    for min in [0usize, 1] {
        for last in [false, true] {
            for first in [false, true] {
                for os in [false, true] {
                 for touch in [false, true] {
                  // `touch`: the leading positional is passed through `Command::mut_arg(id, |a| a)`
                  // after the definition is complete — an identity edit that re-inserts it at the
                  // end of the argument list; nothing observable may change
                  if touch && !first {
                      continue;
                  }
                  for lowidx in [false, true] {
                    // low-index multiple: `<f>... <rest>` (multi-value positional before a required
                    // single one); one variant of the plain shape only
                    if lowidx && !(first && min == 1 && !last) {
                        continue;
                    }
                    for fset in subsets_upto(FEATS.len(), max_feats) {
                        let feats: Vec<Feat> = fset.iter().map(|i| FEATS[*i]).collect();
                        if lowidx && feats.iter().any(|f| matches!(f, Feat::AllowMissing | Feat::TrailingVarArg | Feat::HyphenRest)) {
                            continue;
                        }
                        if feats.contains(&Feat::Delim) && feats.contains(&Feat::DelimDont) {
                            continue;
                        }
                        if feats.contains(&Feat::AllowMissing) && !first {
                            continue;
                        }
                        if feats.contains(&Feat::OptMissingDelim) && feats.contains(&Feat::Opt1to2) {
                            continue;
                        }
                        let mut c = CmdSpec::new("prog");
                        c.args.push(ArgSpec::flag("a", Some('a'), Some("alpha")));
                        c.args.push(ArgSpec::opt("o", Some('o'), Some("opt")));
                        let mut idx = 1;
                        if first {
                            c.args.push(ArgSpec::pos("f", idx));
                            idx += 1;
                        }
                        let mut rest = ArgSpec::pos("rest", idx);
                        rest.num_args = Some((min, None));
                        rest.last = last;
                        if lowidx {
                            let f = c.arg_mut("f").unwrap();
                            f.num_args = Some((1, None));
                            f.required = true;
                            rest.num_args = None;
                            rest.required = true;
                        }
                        if os {
                            rest.parser = Vp::Os;
                            if first {
                                c.arg_mut("f").unwrap().parser = Vp::Os;
                            }
                        }
                        let mut sub = CmdSpec::new("sub");
                        sub.args.push(ArgSpec::flag("x", Some('x'), None));
                        let mut delim_split = false;
                        for f in &feats {
                            match f {
                                Feat::InferSub => c.set(Setting::InferSubcommands),
                                Feat::Precedence => c.set(Setting::SubcommandPrecedenceOverArg),
                                Feat::ArgsConflictSub => c.set(Setting::ArgsConflictsWithSubcommands),
                                Feat::External => c.external = Some(Ext::Os),
                                Feat::Delim => {
                                    rest.delimiter = Some(',');
                                    delim_split = true;
                                }
                                Feat::DelimDont => {
                                    rest.delimiter = Some(',');
                                    c.set(Setting::DontDelimitTrailingValues);
                                }
                                Feat::DisableHelp => c.set(Setting::DisableHelpFlag),
                                Feat::Version => c.version = Some("1.0".into()),
                                Feat::InferLong => c.set(Setting::InferLongArgs),
                                Feat::Opt1to2 => c.arg_mut("o").unwrap().num_args = Some((1, Some(2))),
                                Feat::HyphenRest => rest.allow_hyphen_values = true,
                                Feat::TrailingVarArg => rest.trailing_var_arg = true,
                                Feat::AllowMissing => c.set(Setting::AllowMissingPositional),
                                Feat::SubAliasHelp => sub.aliases.push("-h".into()),
                                Feat::OptMissingDelim => {
                                    let o = c.arg_mut("o").unwrap();
                                    o.num_args = Some((0, Some(1)));
                                    o.delimiter = Some(',');
                                    // (two entries, so that they go through the plural setter and
                                    // more than one value is inserted)
                                    o.default_missing = vec!["m,n".into(), "p,q".into()];
                                }
                            }
                        }
                        c.args.push(rest);
                        c.subs.push(sub);
                        if touch {
                            c.touch.push("f".into());
                        }
                        out.push(Cfg {
                            name: if lowidx { format!("<f>... <rest>{}{} {:?}", if os { " os" } else { "" }, if touch { " mut_arg(f)" } else { "" }, feats) } else if touch { format!("rest({}..){} after [f] mut_arg(f){} {:?}", min, if last { " last" } else { "" }, if os { " os" } else { "" }, feats) } else { format!("rest({}..){}{}{} {:?}", min, if last { " last" } else { "" }, if first { " after [f]" } else { "" }, if os { " os" } else { "" }, feats) },
                            spec: c,
                            delim_split,
                            os,
                            nfeat: feats.len(),
                        });
                    }
                  }
                 }
                }
            }
        }
    }
    out.sort_by_key(|c| c.nfeat);
    out
}

fn prefixes() -> Vec<Vec<Vec<u8>>> {
    let p: Vec<Vec<&str>> = vec![
        vec![],
        vec!["-a"],
        vec!["--opt", "v"],
        vec!["--opt=v"],
        vec!["-a", "-ov"],
        vec!["p1"],
        vec!["p1", "p2"],
        vec!["p1", "-a"],
        vec!["--opt", "v", "p1"],
        vec!["--opt"],
        vec!["p1,p2"],
    ];
    p.into_iter().map(|v| v.into_iter().map(|s| s.as_bytes().to_vec()).collect()).collect()
}

fn tail_tokens() -> Vec<Vec<u8>> {
    let mut t: Vec<Vec<u8>> = ["v", "--help", "-h", "-V", "-a", "--opt=v", "--opt", "sub", "su", "--", "", "-", "help", "a,b", "--version", "--al"]
        .iter()
        .map(|s| s.as_bytes().to_vec())
        .collect();
    t.push(b"\xff".to_vec());
    t
}

fn split_commas(v: &[Vec<u8>]) -> Vec<Vec<u8>> {
    let mut out = vec![];
    for x in v {
        for piece in x.split(|b| *b == b',') {
            out.push(piece.to_vec());
        }
    }
    out
}

fn positional_values(ob: &Obs) -> Vec<Vec<u8>> {
    let mut v = vec![];
    for id in ["f", "rest"] {
        if let Some(a) = ob.args.get(id) {
            if a.source == Some(Src::Cli) {
                v.extend(a.flat());
            }
        }
    }
    v
}

fn judge(cfg: &Cfg, cmd: &clap::Command, prefix: &[Vec<u8>], tail: &[Vec<u8>], h: &mut Hist) -> Vec<(String, String)> {
    // `<f>... <rest>` with a `--` that nothing follows: whether the value before it belongs to the
    // multi-value or to the final positional is decided by a look-ahead nothing documents
    let low_index = cfg.spec.arg("f").map(|f| f.num_args.is_some()).unwrap_or(false);
    if tail.is_empty() && low_index {
        h.bump("not-pinned/low-index-multiple-with-empty-tail");
        return vec![];
    }
    // likewise a value directly followed by a flag: the look-ahead hands it to the final positional,
    // after which the positionals cannot absorb a tail any more
    if low_index && prefix.windows(2).any(|w| !w[0].starts_with(b"-") && w[1].starts_with(b"-")) {
        h.bump("not-pinned/low-index-multiple-value-followed-by-flag");
        return vec![];
    }
    let mut line: Vec<Vec<u8>> = prefix.to_vec();
    line.push(b"--".to_vec());
    line.extend(tail.iter().cloned());
    let a = parse(cmd, &cfg.spec, &line);
    let b = parse(cmd, &cfg.spec, prefix);
    let mut bad = vec![];
    let tail_has_non_utf8 = tail.iter().any(|t| std::str::from_utf8(t).is_err());
    match (&a, &b) {
        (Outcome::Ok(oa), _) => {
            h.bump("ok");
            h.nontrivial += 1;
            let got = positional_values(oa);
            // what the prefix contributes to positionals is known by construction: its plain tokens
            // that are not the value of `--opt`
            let mut pos: Vec<Vec<u8>> = vec![];
            let mut k = 0;
            while k < prefix.len() {
                let t = &prefix[k];
                if t == b"--opt" {
                    // the option takes the following plain token(s): one, or up to two
                    let max = cfg.spec.arg("o").and_then(|o| o.num_args).and_then(|n| n.1).unwrap_or(1);
                    k += 1;
                    let mut n = 0;
                    while n < max && k < prefix.len() && !prefix[k].starts_with(b"-") {
                        k += 1;
                        n += 1;
                    }
                    continue;
                }
                if !t.starts_with(b"-") {
                    pos.push(t.clone());
                }
                k += 1;
            }
            if let Outcome::Err(_) = &b {
                h.bump("ok/prefix-alone-rejected");
            }
            let ok = if cfg.delim_split {
                // splitting at the declared delimiter is asked for: compare after splitting both
                // sides (which positional a token lands in is C02's business)
                let mut want = pos.clone();
                want.extend(tail.iter().cloned());
                if cfg.spec.arg("f").is_none() {
                    // every positional value belongs to `rest`: splitting must have happened
                    got == split_commas(&want)
                } else {
                    split_commas(&got) == split_commas(&want)
                }
            } else {
                // values given before `--` are still split at the declared delimiter (only the
                // trailing ones are exempt); which of them go to a leading positional without a
                // delimiter is known when the order is the plain one
                let rest_delim = cfg.spec.arg("rest").map(|r| r.delimiter.is_some()).unwrap_or(false);
                let plain_order = !cfg.spec.has(Setting::AllowMissingPositional) && !low_index;
                let prefix_ok = |gp: &[Vec<u8>]| -> bool {
                    if rest_delim && plain_order {
                        let want: Vec<Vec<u8>> = if cfg.spec.arg("f").is_some() {
                            pos.iter().take(1).cloned().chain(split_commas(&pos[pos.len().min(1)..])).collect()
                        } else {
                            split_commas(&pos)
                        };
                        gp == want.as_slice()
                    } else {
                        split_commas(gp) == split_commas(&pos)
                    }
                };
                got.len() >= tail.len() && got[got.len() - tail.len()..] == tail[..] && prefix_ok(&got[..got.len() - tail.len()])
            };
            if !ok {
                let mut want = pos.clone();
                want.extend(tail.iter().cloned());
                let tail_verbatim = got.len() >= tail.len() && got[got.len() - tail.len()..] == tail[..];
                let cause = if tail_verbatim && !cfg.delim_split {
                    "values given before `--` differ from what the same tokens give without a tail (delimiter splitting)"
                } else if got.len() > want.len() && cfg.spec.has(Setting::DontDelimitTrailingValues) {
                    "a value after `--` was split although trailing values are not to be delimited"
                } else if got.len() < want.len() {
                    "a token after `--` did not reach the positionals"
                } else {
                    "positional values after `--` are not the tail verbatim"
                };
                bad.push((
                    cause.to_string(),
                    format!("positionals {:?}, expected {:?}", got.iter().map(|v| show(v)).collect::<Vec<_>>(), want.iter().map(|v| show(v)).collect::<Vec<_>>()),
                ));
            }
            // the first positional keeps the first plain token given before `--` (documented for
            // allow_missing_positional: `prog foo -- baz` gives foo=foo; ordinary order otherwise)
            let plain_settings = [Setting::SubcommandPrecedenceOverArg, Setting::DontDelimitTrailingValues];
            let rest_spec = cfg.spec.arg("rest");
            let simple_rest = rest_spec.map(|r| r.delimiter.is_none() && !r.allow_hyphen_values && !r.trailing_var_arg).unwrap_or(false);
            // (with allow_missing_positional a value directly followed by a flag may go to the last
            // positional: not pinned)
            let followed_by_flag = pos.first().and_then(|p0| prefix.iter().position(|t| t == p0)).and_then(|i| prefix.get(i + 1)).map(|t| t.starts_with(b"-")).unwrap_or(false);
            if cfg.spec.arg("f").map(|f| f.num_args.is_none()).unwrap_or(false) && simple_rest && !pos.is_empty() && !tail.is_empty() && !followed_by_flag && cfg.spec.external.is_none() && !plain_settings.iter().any(|s| cfg.spec.has(*s)) {
                let f = oa.args.get("f").filter(|a| a.source == Some(Src::Cli)).map(|a| a.flat()).unwrap_or_default();
                if f != vec![pos[0].clone()] {
                    bad.push((
                        "a positional value given before `--` moved to another positional because a tail follows".into(),
                        format!("f is {:?}, expected [{:?}]", f.iter().map(|v| show(v)).collect::<Vec<_>>(), show(&pos[0])),
                    ));
                }
            }
            if let Some((n, _)) = &oa.sub {
                bad.push(("a token after `--` was dispatched as a subcommand".into(), format!("subcommand {}", n)));
            }
            if let Outcome::Ok(ob) = &b {
                for id in ["a", "o"] {
                    let strip = |o: Option<&ArgObs>| o.map(|o| (o.present, o.source, o.occ.clone()));
                    let (x, y) = (strip(oa.args.get(id)), strip(ob.args.get(id)));
                    if x != y {
                        bad.push((
                            "a flag/option given before `--` changed because of the tail".into(),
                            format!("{}: with tail {:?}, without {:?}", id, x, y),
                        ));
                    }
                }
            }
        }
        (Outcome::Err(e), _) => {
            h.bump(&format!("err/{}", e.kind));
            if e.kind == "DisplayHelp" || e.kind == "DisplayVersion" {
                bad.push((format!("a token after `--` was taken as a {} request", e.kind), String::new()));
            } else if let Outcome::Ok(_) = &b {
                // the prefix is fine and the positional can absorb anything: only value-language
                // errors are justified
                let justified = (e.kind == "InvalidUtf8" && tail_has_non_utf8 && !cfg.os)
                    // `last`/required shapes can make the *prefix* positionals illegal only with the tail: none here
                    ;
                if !justified {
                    bad.push((
                        format!("line rejected with {} although the prefix alone parses and the tail is positional", e.kind),
                        e.rendered.lines().next().unwrap_or("").to_string(),
                    ));
                }
            } else if !tail.is_empty() {
                // the prefix alone is not a complete line (a required positional is still open):
                // acceptance must then depend on the *number* of tokens after `--`, not on what
                // they look like
                let mut plain: Vec<Vec<u8>> = prefix.to_vec();
                plain.push(b"--".to_vec());
                plain.extend(tail.iter().map(|_| b"v".to_vec()));
                let splits = cfg.delim_split && tail.iter().any(|t| t.contains(&b','));
                let justified = (e.kind == "InvalidUtf8" && tail_has_non_utf8 && !cfg.os) || splits;
                if !justified {
                    if let Outcome::Ok(_) = parse(cmd, &cfg.spec, &plain) {
                        h.bump("err/same-line-with-plain-tail-parses");
                        bad.push((
                            format!("line rejected with {} although the same line with plain values after `--` parses", e.kind),
                            e.rendered.lines().next().unwrap_or("").to_string(),
                        ));
                    }
                }
            }
        }
    }
    bad
}

fn recheck(case: &Value) -> Vec<Violation> {
    let Ok(spec) = CmdSpec::from_json(&case["spec"]) else { return vec![] };
    let prefix = unhex_argv(&case["prefix_hex"]);
    let tail = unhex_argv(&case["tail_hex"]);
    let Ok(cmd) = build_valid(&spec) else { return vec![] };
    let cfg = Cfg {
        name: String::new(),
        delim_split: case["delim_split"].as_bool().unwrap_or(false),
        os: case["os"].as_bool().unwrap_or(false),
        nfeat: 0,
        spec,
    };
    let mut h = Hist::new();
    match catch(|| judge(&cfg, &cmd, &prefix, &tail, &mut h)) {
        Ok(b) => b.into_iter().map(|(c, w)| Violation { cause: c, order: (0, 0), what: w, case: case.clone() }).collect(),
        Err(p) => vec![Violation { cause: p.key(), order: (0, 0), what: p.show(), case: case.clone() }],
    }
}

fn main() {
    let cli = Cli::parse();
    install_silent_hook();
    fix_env();
    let tier = match &cli.mode {
        Mode::Replay(p) => run_replay(PROP, p, &recheck),
        Mode::Explore(t) => *t,
    };
    let rep = Report::new(PROP, tier, cli.seed);
    let maxf = 2usize;
    let k = tier.pick(2usize, 3usize);
    let cfgs = configs(maxf);
    let pre = prefixes();
    let tt = tail_tokens();
    rep.rule("block = one trailing-positional configuration accepted by the validity gate; case = (prefix, tail) with prefix from 11 spelled prefixes and tail in T^{<=k}, T = 17 hostile token shapes (flags, help/version requests, option spellings, subcommand names and prefixes, `--`, empty, `-`, delimiter, non-UTF-8); `prefix -- tail` is parsed and compared with the parse of `prefix` alone. non-trivial = lines that parse successfully (tail compared byte-for-byte)");
    rep.set("bounds", json!({"max_features": maxf, "max_tail_len": k, "tail_tokens": tt.iter().map(|t| show(t)).collect::<Vec<_>>(), "prefixes": pre.len(), "configurations": cfgs.len()}));
    rep.assume("values are compared after splitting at the declared delimiter when one is set without dont_delimit_trailing_values; with it, values must be verbatim");
    rep.assume("a rejected line is only justified by the value language (non-UTF-8 into a String-typed positional) when the prefix alone parses");

    let rejected = std::sync::atomic::AtomicU64::new(0);
    par_blocks(cfgs.len(), |bi, _| {
        let cfg = &cfgs[bi];
        let cmd = match build_valid(&cfg.spec) {
            Ok(c) => c,
            Err(_) => {
                rejected.fetch_add(1, std::sync::atomic::Ordering::Relaxed);
                return;
            }
        };
        let mut h = Hist::new();
        let mut idx = 0u64;
        let eager_rest = cfg.spec.arg("rest").map(|r| r.allow_hyphen_values || r.trailing_var_arg).unwrap_or(false);
        for (pi, p) in pre.iter().enumerate() {
            // Once a hyphen-accepting or trailing_var_arg positional has started collecting, a bare
            // `--` is documented to be one of its values, not the escape: such configurations only
            // get prefixes that leave the positional untouched.
            if eager_rest && p.iter().any(|t| !t.starts_with(b"--opt") && t != b"-a" && !(t == b"v" && p[0] == b"--opt")) {
                continue;
            }
            let mut tail: Vec<Vec<u8>> = vec![];
            for_each_seq(tt.len(), k, |s| {
                tail.clear();
                tail.extend(s.iter().map(|i| tt[*i].clone()));
                h.evaluations += 1;
                h.states += 1;
                h.transitions += 1;
                h.validated += 1;
                idx += 1;
                let order = ((cfg.nfeat as u64) << 40 | (bi as u64) << 8 | pi as u64, idx);
                let mk = |tail: &[Vec<u8>]| json!({"config": cfg.name, "spec": cfg.spec.to_json(), "delim_split": cfg.delim_split, "os": cfg.os,
                    "prefix_hex": hex_argv(p), "tail_hex": hex_argv(tail), "line_shown": format!("{:?} -- {:?}", p.iter().map(|a| show(a)).collect::<Vec<_>>(), tail.iter().map(|a| show(a)).collect::<Vec<_>>())});
                match catch(|| judge(cfg, &cmd, p, &tail, &mut h)) {
                    Ok(bad) => {
                        for (c, w) in bad {
                            rep.violation(Violation {
                                cause: c.clone(),
                                order,
                                what: format!("config {} line {:?} -- {:?}: {} ({})", cfg.name, p.iter().map(|a| show(a)).collect::<Vec<_>>(), tail.iter().map(|a| show(a)).collect::<Vec<_>>(), c, w),
                                case: mk(&tail),
                            });
                        }
                    }
                    Err(pn) => rep.violation(Violation {
                        cause: pn.key(),
                        order,
                        what: format!("config {} line {:?} -- {:?}: {}", cfg.name, p.iter().map(|a| show(a)).collect::<Vec<_>>(), tail.iter().map(|a| show(a)).collect::<Vec<_>>(), pn.show()),
                        case: mk(&tail),
                    }),
                }
            });
        }
        if bi == 0 || bi == cfgs.len() / 2 || bi == cfgs.len() - 1 {
            rep.sample(json!({"config": cfg.name, "example_line": "p1 -a -- --help sub --"}));
        }
        rep.merge(&h);
    });
    rep.set("configurations_rejected_by_validity_gate", json!(rejected.load(std::sync::atomic::Ordering::Relaxed)));
    rep.finish(&recheck);
}
