//! C16 — generated completion scripts cover the whole command tree and work in the shell.
//!
//! Space: command trees (root children from {saa, sb-c, sd_e, sb (with child c)}, optional nested
//! level, visible + hidden aliases, per-level marker-named options: short+long+visible alias flag,
//! value option with possible values incl. a hidden one, optional-value option with possible
//! values, positional with possible values) x 6 generators. bash: the script is fed to real
//! `bash -n`, sourced in real bash and queried for every subcommand path x every partial word that
//! is a prefix of any option or subcommand of any level.

use clap_complete::aot::{generate, Bash, Elvish, Fish, PowerShell, Zsh};
use clap_complete_nushell::Nushell;
use mccore::report::run_replay;
use mccore::*;
use mcmodel::*;
use serde_json::{json, Value};
use std::collections::BTreeSet;
use std::io::Write;

const PROP: &str = "C16";
const GENS: [&str; 6] = ["bash", "zsh", "fish", "powershell", "elvish", "nushell"];

fn gen(which: &str, spec: &CmdSpec) -> String {
    let mut c = build(spec);
    let mut buf: Vec<u8> = vec![];
    match which {
        "bash" => generate(Bash, &mut c, "prog", &mut buf),
        "zsh" => generate(Zsh, &mut c, "prog", &mut buf),
        "fish" => generate(Fish, &mut c, "prog", &mut buf),
        "powershell" => generate(PowerShell, &mut c, "prog", &mut buf),
        "elvish" => generate(Elvish, &mut c, "prog", &mut buf),
        _ => generate(Nushell, &mut c, "prog", &mut buf),
    }
    String::from_utf8_lossy(&buf).to_string()
}

/// level options with unique marker names; `tag` makes them unique per level
fn level_args(tag: &str, short_base: u8) -> Vec<ArgSpec> {
    let mut f = ArgSpec::flag(&format!("f{}", tag), Some(short_base as char), Some(&format!("lflag{}", tag)));
    f.visible_aliases.push(format!("lfalias{}", tag));
    f.aliases.push(format!("lfhidalias{}", tag));
    let mut o = ArgSpec::opt(&format!("o{}", tag), Some((short_base + 1) as char), Some(&format!("lopt{}", tag)));
    o.parser = Vp::Pv(vec![
        PvSpec { name: format!("pvone{}", tag), ..Default::default() },
        PvSpec { name: format!("pvtwo{}", tag), help: Some("pv help".into()), ..Default::default() },
        PvSpec { name: format!("pvhid{}", tag), hide: true, ..Default::default() },
    ]);
    // the list parser behind an adaptor (which one varies with the level)
    o.pv_adaptor = 1 + ((short_base / 4) % 2);
    // a hidden short alias declared before a visible one
    let upper = |b: u8| match (b as char).to_ascii_uppercase() {
        'V' | 'H' => 'Z', // kept free for the generated version / help flags
        c => c,
    };
    o.short_aliases.push(upper(short_base));
    o.visible_short_aliases.push(upper(short_base + 1));
    let mut ov = ArgSpec::opt(&format!("ov{}", tag), None, Some(&format!("loptval{}", tag)));
    ov.num_args = Some((0, Some(1)));
    ov.parser = Vp::Pv(vec![PvSpec { name: format!("ovone{}", tag), ..Default::default() }, PvSpec { name: format!("ovtwo{}", tag), ..Default::default() }]);
    let mut hid = ArgSpec::flag(&format!("h{}", tag), None, Some(&format!("lhidden{}", tag)));
    hid.hide = true;
    // an option with a value hint; the hint varies with the level so that all are exercised
    const HINTS: [&str; 11] = ["FilePath", "DirPath", "AnyPath", "ExecutablePath", "CommandName", "CommandString", "Username", "Hostname", "Url", "EmailAddress", "Other"];
    let mut hv = ArgSpec::opt(&format!("hint{}", tag), None, Some(&format!("lhint{}", tag)));
    // a short whose only alias is a hidden one
    if ((short_base + 2) as char).is_ascii_lowercase() {
        hv.short = Some((short_base + 2) as char);
        hv.short_aliases.push(upper(short_base + 2));
    }
    hv.value_hint = Some(HINTS[(tag.bytes().map(|b| b as usize).sum::<usize>() + short_base as usize) % HINTS.len()].to_string());
    // a `Set` option that takes no value on the line (its value is the default_missing_value)
    let mut oz = ArgSpec::opt(&format!("oz{}", tag), None, Some(&format!("lzero{}", tag)));
    oz.num_args = Some((0, Some(0)));
    oz.default_missing = vec!["dm".into()];
    oz.visible_aliases.push(format!("lzeroalias{}", tag));
    vec![f, o, ov, hid, hv, oz]
}

struct Tree {
    name: String,
    spec: CmdSpec,
}

fn trees(thorough: bool) -> Vec<Tree> {
    // `sa` stands before `saa`: a name that is a strict prefix of a later sibling's
    let child_names = ["sa", "saa", "sb-c", "sd_e", "sb", "s__x"];
    let mut out = vec![];
    for set in subsets_upto(child_names.len(), child_names.len()) {
        if set.is_empty() {
            continue;
        }
        for nested in [false, true] {
            for pos in [false, true] {
                if !thorough && ((pos && set.len() > 2) || set.len() > 3) {
                    continue;
                }
                let mut root = CmdSpec::new("prog");
                root.args = level_args("r", b'a');
                if pos {
                    let mut p = ArgSpec::pos("posr", 1);
                    p.parser = Vp::Pv(vec![PvSpec { name: "posone".into(), ..Default::default() }, PvSpec { name: "postwo".into(), ..Default::default() }]);
                    root.args.push(p);
                }
                for (k, &ci) in set.iter().enumerate() {
                    let n = child_names[ci];
                    let tag = format!("c{}", ci);
                    let mut c = CmdSpec::new(n);
                    c.args = level_args(&tag, b'e' + 4 * ci as u8);
                    if k == 0 {
                        c.visible_aliases.push(format!("{}vis", n));
                        c.aliases.push(format!("{}hid", n));
                    }
                    if pos && k == 0 && n != "sb" && !nested {
                        // leaf level: a multi-value positional ended by a value terminator, then a
                        // `last` positional with possible values
                        let mut pt = ArgSpec::pos(&format!("pterm{}", ci), 1);
                        pt.num_args = Some((1, None));
                        pt.terminator = Some(";".into());
                        c.args.push(pt);
                        let mut pl = ArgSpec::pos(&format!("plast{}", ci), 2);
                        pl.last = true;
                        pl.parser = Vp::Pv(vec![PvSpec { name: format!("lastone{}", ci), ..Default::default() }, PvSpec { name: format!("lasttwo{}", ci), ..Default::default() }]);
                        c.args.push(pl);
                    }
                    if pos && k == 1 && n != "sb" {
                        // leaf level: a multi-value positional without terminator, then a required
                        // single-value positional with possible values (`cp <SRC>... <MODE>`)
                        let mut ps = ArgSpec::pos(&format!("psrc{}", ci), 1);
                        ps.num_args = Some((1, None));
                        ps.required = true;
                        c.args.push(ps);
                        let mut pm = ArgSpec::pos(&format!("pmode{}", ci), 2);
                        pm.required = true;
                        pm.parser = Vp::Pv(vec![PvSpec { name: format!("modeone{}", ci), ..Default::default() }, PvSpec { name: format!("modetwo{}", ci), ..Default::default() }]);
                        c.args.push(pm);
                    }
                    if n == "sb" {
                        // nested `sb` -> `c` collides with `sb-c` after name mangling
                        let mut cc = CmdSpec::new("c");
                        cc.args = level_args("sbc", b'u');
                        c.subs.push(cc);
                    } else if nested && k == 0 {
                        let mut d = CmdSpec::new("sdeep");
                        d.visible_aliases.push("sdeepvis".into());
                        d.args = level_args(&format!("d{}", ci), b'q');
                        c.subs.push(d);
                    }
                    if k <= 1 {
                        // the first two children each declare a *global* option with the same id and
                        // long name but different possible values (written into their own children
                        // too, which is what propagation gives)
                        let mut g = ArgSpec::opt("gformat", None, Some("gformat"));
                        g.global = true;
                        g.parser = Vp::Pv(vec![PvSpec { name: format!("gfone{}", ci), ..Default::default() }, PvSpec { name: format!("gftwo{}", ci), ..Default::default() }]);
                        c.args.push(g.clone());
                        for sub in c.subs.iter_mut() {
                            sub.args.push(g.clone());
                        }
                    }
                    root.subs.push(c);
                }
                let mut hs = CmdSpec::new("shidden");
                hs.hide = true;
                root.subs.push(hs);
                out.push(Tree { name: format!("children {:?}{}{}", set.iter().map(|i| child_names[*i]).collect::<Vec<_>>(), if nested { " +nested" } else { "" }, if pos { " +positional" } else { "" }), spec: root });
            }
        }
    }
    out
}

struct Lvl<'a> {
    path: Vec<String>,
    spec: &'a CmdSpec,
}

fn levels<'a>(spec: &'a CmdSpec) -> Vec<Lvl<'a>> {
    fn walk<'a>(c: &'a CmdSpec, path: Vec<String>, out: &mut Vec<Lvl<'a>>) {
        out.push(Lvl { path: path.clone(), spec: c });
        for s in &c.subs {
            if s.hide {
                continue;
            }
            let mut p = path.clone();
            p.push(s.name.clone());
            walk(s, p, out);
        }
    }
    let mut v = vec![];
    walk(spec, vec![], &mut v);
    v
}

fn has_word(text: &str, w: &str) -> bool {
    let mut start = 0;
    while let Some(p) = text[start..].find(w) {
        let i = start + p;
        let before = text[..i].chars().last();
        let after = text[i + w.len()..].chars().next();
        let edge = |c: Option<char>| c.map(|c| !(c.is_alphanumeric() || c == '_')).unwrap_or(true);
        // a hyphen may precede (`--name`) but an alphanumeric must not
        if edge(before) && edge(after) {
            return true;
        }
        start = i + w.len();
    }
    false
}

fn short_pattern(gen: &str, s: char) -> Vec<String> {
    match gen {
        "bash" => vec![format!(" -{} ", s), format!("\"-{} ", s)],
        "zsh" => vec![format!("'-{}", s), format!("\"-{}", s), format!("-{}+", s)],
        "fish" => vec![format!("-s {}", s)],
        "powershell" => vec![format!("'-{}'", s)],
        "elvish" => vec![format!("cand -{} ", s)],
        // primary short: `--long(-s)`; short-only arguments and short aliases: a line of their own
        _ => vec![format!("(-{})", s), format!("    -{}", s)],
    }
}

fn check_mentions(gen: &str, spec: &CmdSpec, script: &str) -> Vec<(String, String)> {
    let mut bad = vec![];
    for l in levels(spec) {
        if gen == "fish" && l.path.len() > 1 {
            continue;
        }
        for a in &l.spec.args {
            if a.hide {
                continue;
            }
            for n in a.long.iter().chain(a.visible_aliases.iter()) {
                if !has_word(script, n) {
                    bad.push((format!("{}: an option's long name or visible alias is not mentioned", gen), format!("--{} at level {:?}", n, l.path)));
                }
            }
            if let Some(s) = a.short {
                if !short_pattern(gen, s).iter().any(|p| script.contains(p)) {
                    bad.push((format!("{}: an option's short is not mentioned", gen), format!("-{} at level {:?}", s, l.path)));
                }
            }
            for s in &a.visible_short_aliases {
                if !short_pattern(gen, *s).iter().any(|p| script.contains(p)) {
                    bad.push((format!("{}: an option's visible short alias is not mentioned", gen), format!("-{} at level {:?}", s, l.path)));
                }
            }
            if let Vp::Pv(pvs) = &a.parser {
                for p in pvs.iter().filter(|p| !p.hide) {
                    if !has_word(script, &p.name) {
                        let optional = a.num_args.map(|n| n.0 == 0).unwrap_or(false);
                        let cause = match (gen, optional, a.is_positional()) {
                            ("powershell", _, _) | ("elvish", _, _) => format!("{}: possible values are not emitted at all", gen),
                            ("zsh", true, false) => "zsh: possible values of an option whose value is optional are not emitted".to_string(),
                            ("fish", _, true) => "fish: possible values of positionals are not emitted".to_string(),
                            _ => format!("{}: a non-hidden possible value is not mentioned", gen),
                        };
                        bad.push((cause, format!("value {} of {} at level {:?}", p.name, a.id, l.path)));
                    }
                }
            }
        }
        for s in l.spec.subs.iter().filter(|s| !s.hide) {
            if !has_word(script, &s.name) {
                bad.push((format!("{}: a subcommand name is not mentioned", gen), format!("{} under {:?}", s.name, l.path)));
            }
            for al in &s.visible_aliases {
                if !has_word(script, al) {
                    let cause = if gen == "nushell" { "nushell: visible aliases of subcommands are not emitted".to_string() } else { format!("{}: a subcommand's visible alias is not mentioned", gen) };
                    bad.push((cause, format!("{} (alias of {}) under {:?}", al, s.name, l.path)));
                }
            }
        }
    }
    bad
}

// ---- bash execution

/// Words of a level: `hidden=false` the visible ones (must be offered), `hidden=true` all of them
/// (may be offered: a hidden option is still an option of the level).
fn level_words_h(c: &CmdSpec, hidden: bool) -> (BTreeSet<String>, BTreeSet<String>) {
    let mut opts = BTreeSet::new();
    for a in c.args.iter().filter(|a| hidden || !a.hide) {
        if hidden {
            for n in a.aliases.iter() {
                opts.insert(format!("--{}", n));
            }
        }
        if let Some(s) = a.short {
            opts.insert(format!("-{}", s));
        }
        for s in a.visible_short_aliases.iter() {
            opts.insert(format!("-{}", s));
        }
        if hidden {
            for s in a.short_aliases.iter() {
                opts.insert(format!("-{}", s));
            }
        }
        for n in a.long.iter().chain(a.visible_aliases.iter()) {
            opts.insert(format!("--{}", n));
        }
    }
    opts.insert("-h".into());
    opts.insert("--help".into());
    let mut subs = BTreeSet::new();
    for s in c.subs.iter().filter(|s| hidden || !s.hide) {
        subs.insert(s.name.clone());
        for al in &s.visible_aliases {
            subs.insert(al.clone());
        }
        if hidden {
            for al in &s.aliases {
                subs.insert(al.clone());
            }
        }
    }
    if !c.subs.is_empty() {
        subs.insert("help".into());
    }
    (opts, subs)
}

fn level_words(c: &CmdSpec) -> (BTreeSet<String>, BTreeSet<String>) {
    let mut opts = BTreeSet::new();
    for a in c.args.iter().filter(|a| !a.hide) {
        if let Some(s) = a.short {
            opts.insert(format!("-{}", s));
        }
        for s in a.visible_short_aliases.iter() {
            opts.insert(format!("-{}", s));
        }
        for n in a.long.iter().chain(a.visible_aliases.iter()) {
            opts.insert(format!("--{}", n));
        }
    }
    opts.insert("-h".into());
    opts.insert("--help".into());
    let mut subs = BTreeSet::new();
    for s in c.subs.iter().filter(|s| !s.hide) {
        subs.insert(s.name.clone());
        for al in &s.visible_aliases {
            subs.insert(al.clone());
        }
    }
    if !c.subs.is_empty() {
        subs.insert("help".into());
    }
    (opts, subs)
}

struct Query {
    path: Vec<String>,
    partial: String,
}

fn bash_queries(spec: &CmdSpec) -> Vec<Query> {
    let lv = levels(spec);
    let mut partials: BTreeSet<String> = BTreeSet::new();
    partials.insert(String::new());
    for l in &lv {
        let (o, s) = level_words(l.spec);
        for w in o.iter().chain(s.iter()) {
            for cut in 1..=w.len() {
                partials.insert(w[..cut].to_string());
            }
        }
    }
    let mut q = vec![];
    for l in &lv {
        // spell the path by names; and once by the visible alias of its first step if there is one
        let mut paths = vec![l.path.clone()];
        if let Some(first) = l.path.first() {
            if let Some(s) = spec.sub(first) {
                if let Some(al) = s.visible_aliases.first() {
                    let mut p = l.path.clone();
                    p[0] = al.clone();
                    paths.push(p);
                }
            }
        }
        for p in paths {
            for w in &partials {
                q.push(Query { path: p.clone(), partial: w.clone() });
            }
        }
    }
    q
}

fn run_bash(script: &str, queries: &[Query], work: &std::path::Path, tag: &str) -> Result<Vec<Vec<String>>, String> {
    std::fs::create_dir_all(work).map_err(|e| e.to_string())?;
    let sp = work.join(format!("{}.bash", tag));
    std::fs::write(&sp, script).map_err(|e| e.to_string())?;
    // syntax check by the real shell
    let n = std::process::Command::new("bash").arg("-n").arg(&sp).output().map_err(|e| e.to_string())?;
    if !n.status.success() {
        return Err(format!("bash -n rejects the script: {}", String::from_utf8_lossy(&n.stderr).lines().next().unwrap_or("")));
    }
    let mut drv = String::new();
    drv.push_str(&format!("source '{}'\n", sp.display()));
    drv.push_str("q() { COMP_WORDS=(\"$@\"); COMP_CWORD=$(( ${#COMP_WORDS[@]} - 1 )); COMPREPLY=(); _prog prog \"${COMP_WORDS[COMP_CWORD]}\" \"${COMP_WORDS[COMP_CWORD-1]}\" 2>/dev/null; printf 'R:%s\\n' \"${COMPREPLY[*]}\"; }\n");
    for q in queries {
        drv.push_str("q prog");
        for p in &q.path {
            drv.push_str(&format!(" '{}'", p));
        }
        drv.push_str(&format!(" '{}'\n", q.partial));
    }
    let dp = work.join(format!("{}.driver.bash", tag));
    std::fs::write(&dp, drv).map_err(|e| e.to_string())?;
    let mut child = std::process::Command::new("bash")
        .arg("--norc")
        .arg("--noprofile")
        .arg(&dp)
        .stdin(std::process::Stdio::null())
        .stdout(std::process::Stdio::piped())
        .stderr(std::process::Stdio::null())
        .spawn()
        .map_err(|e| e.to_string())?;
    let mut out = String::new();
    use std::io::Read;
    child.stdout.take().unwrap().read_to_string(&mut out).map_err(|e| e.to_string())?;
    let _ = child.wait();
    let _ = std::fs::remove_file(&dp);
    let _ = std::fs::remove_file(&sp);
    let res: Vec<Vec<String>> = out.lines().filter_map(|l| l.strip_prefix("R:")).map(|l| l.split_whitespace().map(|s| s.to_string()).collect()).collect();
    if res.len() != queries.len() {
        return Err(format!("bash driver produced {} answers for {} queries", res.len(), queries.len()));
    }
    Ok(res)
}

fn collision(spec: &CmdSpec) -> bool {
    spec.sub("sb-c").is_some() && spec.sub("sb").is_some()
}

fn check_bash(spec: &CmdSpec, script: &str, work: &std::path::Path, tag: &str, h: &mut Hist) -> Vec<(String, String, Value)> {
    let mut bad = vec![];
    let queries = bash_queries(spec);
    let answers = match run_bash(script, &queries, work, tag) {
        Ok(a) => a,
        Err(e) => {
            let cause = if e.starts_with("bash -n") { "bash does not accept the generated script".to_string() } else { "bash driver failed".to_string() };
            bad.push((cause, e, json!({})));
            return bad;
        }
    };
    let mut all_subs: BTreeSet<String> = BTreeSet::new();
    fn walk(c: &CmdSpec, s: &mut BTreeSet<String>) {
        for x in &c.subs {
            s.insert(x.name.clone());
            s.extend(x.aliases.iter().cloned());
            s.extend(x.visible_aliases.iter().cloned());
            walk(x, s);
        }
    }
    walk(spec, &mut all_subs);
    all_subs.insert("help".into());
    for (q, a) in queries.iter().zip(answers.iter()) {
        h.evaluations += 1;
        h.transitions += 1;
        h.validated += 1;
        // the addressed level (paths may use the first step's visible alias)
        let mut lvl = spec;
        for (i, p) in q.path.iter().enumerate() {
            lvl = lvl.subs.iter().find(|s| &s.name == p || (i == 0 && s.visible_aliases.contains(p))).unwrap();
        }
        let (opts, subs) = level_words(lvl);
        let want_o: BTreeSet<&String> = opts.iter().filter(|w| w.starts_with(&q.partial)).collect();
        let want_s: BTreeSet<&String> = subs.iter().filter(|w| w.starts_with(&q.partial)).collect();
        let got_o: BTreeSet<&String> = a.iter().filter(|w| w.starts_with('-')).collect();
        let got_s: BTreeSet<&String> = a.iter().filter(|w| all_subs.contains(*w)).collect();
        let (max_o, max_s) = level_words_h(lvl, true);
        let within = got_o.iter().all(|w| max_o.contains(*w)) && got_s.iter().all(|w| max_s.contains(*w));
        if want_o.is_subset(&got_o) && want_s.is_subset(&got_s) && within {
            h.nontrivial += 1;
            continue;
        }
        // classify by cause
        let eq_sub_name = !q.partial.is_empty() && (subs.contains(&q.partial) || lvl.subs.iter().any(|s| s.aliases.contains(&q.partial)));
        let on_collision = collision(spec) && q.path.first().map(|p| p == "sb" || p == "sb-c" || p == "sb-cvis").unwrap_or(false);
        let cause = if eq_sub_name {
            "bash: the word under the cursor equals a subcommand name of the addressed level and is consumed as that subcommand".to_string()
        } else if on_collision {
            "bash: `sb-c` and nested `sb` `c` mangle to the same function-name label".to_string()
        } else {
            "bash: offered options/subcommands differ from those of the addressed level".to_string()
        };
        bad.push((
            cause,
            format!("path {:?} word {:?}: options got {:?} want {:?}; subcommands got {:?} want {:?}", q.path, q.partial, got_o, want_o, got_s, want_s),
            json!({"path": q.path, "partial": q.partial}),
        ));
    }
    bad
}

fn work_dir() -> std::path::PathBuf {
    mccore::report::verif_root().join(".work").join("c16")
}

fn check_tree(t: &CmdSpec, tag: &str, h: &mut Hist) -> Vec<(String, String, Value)> {
    let mut bad = vec![];
    for g in GENS {
        h.evaluations += 1;
        h.states += 1;
        let a = match catch(|| gen(g, t)) {
            Ok(s) => s,
            Err(p) => {
                bad.push((format!("{}: generator panics: {}", g, p.key()), p.show(), json!({"generator": g})));
                continue;
            }
        };
        let b = gen(g, t);
        if a != b {
            bad.push((format!("{}: two generations differ", g), String::new(), json!({"generator": g})));
        }
        for (c, w) in check_mentions(g, t, &a) {
            bad.push((c, w, json!({"generator": g})));
        }
        if g == "bash" {
            bad.extend(check_bash(t, &a, &work_dir(), tag, h));
        }
    }
    bad
}

fn recheck(case: &Value) -> Vec<Violation> {
    let Ok(spec) = CmdSpec::from_json(&case["spec"]) else { return vec![] };
    if build_valid(&spec).is_err() {
        return vec![];
    }
    let mut h = Hist::new();
    match catch(|| check_tree(&spec, "replay", &mut h)) {
        Ok(b) => b.into_iter().map(|(c, w, _)| Violation { cause: c, order: (0, 0), what: w, case: case.clone() }).collect(),
        Err(p) => vec![Violation { cause: p.key(), order: (0, 0), what: p.show(), case: case.clone() }],
    }
}

fn main() {
    let cli = Cli::parse();
    install_silent_hook();
    fix_env();
    let tier = match &cli.mode {
        Mode::Replay(p) => run_replay(PROP, p, &recheck),
        Mode::Explore(t) => *t,
    };
    let rep = Report::new(PROP, tier, cli.seed);
    let ts = trees(tier == Tier::Thorough);
    rep.rule("block = one command tree; per tree all 6 generators run twice (determinism) and are searched for every marker-named option (long, visible alias, short in the shell's own spelling), non-hidden possible value, subcommand name and visible alias of every supported level (fish: 2); the bash script is checked by `bash -n`, sourced in real bash and queried for every subcommand path (by name and by visible alias of the first step) x every prefix (incl. empty and full) of every option/subcommand word of any level: COMPREPLY restricted to option-shaped words and to subcommand names must equal the addressed level's words extending the partial. states = generator runs, transitions = bash queries; non-trivial = bash queries whose answer was exactly the expected set");
    rep.set("bounds", json!({"trees": ts.len(), "generators": GENS}));
    rep.assume("zsh, fish, PowerShell, elvish and nushell scripts are only searched textually (those shells are not installed); real bash 5.2 runs the bash script");
    rep.assume("value candidates and positional placeholders in COMPREPLY are ignored");
    let _ = std::io::stdout().flush();

    par_blocks(ts.len(), |bi, _| {
        let t = &ts[bi];
        if let Err(p) = build_valid(&t.spec) {
            rep.machinery(&format!("tree [{}] rejected by the validity gate: {}", t.name, p.show()));
        }
        let mut h = Hist::new();
        let tag = format!("t{}", bi);
        match catch(|| check_tree(&t.spec, &tag, &mut h)) {
            Ok(bad) => {
                for (i, (c, w, extra)) in bad.into_iter().enumerate() {
                    rep.violation(Violation { cause: c.clone(), order: (t.spec.subs.len() as u64 * 1000 + bi as u64, i as u64), what: format!("tree [{}]: {} — {}", t.name, c, w), case: json!({"tree": t.name, "spec": t.spec.to_json(), "detail": extra}) });
                }
            }
            Err(p) => rep.violation(Violation { cause: p.key(), order: (bi as u64, 0), what: format!("tree [{}]: {}", t.name, p.show()), case: json!({"tree": t.name, "spec": t.spec.to_json()}) }),
        }
        if bi == 0 || bi == ts.len() - 1 {
            rep.sample(json!({"tree": t.name, "bash_queries": bash_queries(&t.spec).len()}));
        }
        rep.merge(&h);
    });
    rep.finish(&recheck);
}
