//! C07 — occurrences combine by action: last-wins, append-in-order, saturating count.
//!
//! Space: argument under test `x` in 7 shapes (Set / Append option, Count / SetTrue / SetFalse flag,
//! Set / Append multi-value positional) x self-override mode (none, args_override_self,
//! overrides_with(self)) x override relation among x, y, z (8 patterns incl. two overriders of one
//! target) x every occurrence sequence of length <= n over {x(v1), x(v2), y, z}; for Count every
//! repeat count 0..=300 (separate tokens and one cluster, with a foreign flag at the start, middle
//! and end). Oracle: fold of the occurrence sequence by action (R4).

use clap::ArgMatches;
use mccore::report::run_replay;
use mccore::*;
use mcmodel::*;
use serde_json::{json, Value};
use std::collections::BTreeMap;

const PROP: &str = "C07";

#[derive(Clone, Copy, Debug, PartialEq, Eq)]
enum Shape {
    SetOpt,
    AppendOpt,
    /// Append option whose occurrences may carry no value at all (num_args 0..=1)
    AppendOpt0,
    Count,
    SetTrue,
    SetFalse,
    PosSet,
    PosAppend,
    /// Append positional with the default value count: every value is an occurrence of its own
    PosAppend1,
}
const SHAPES: [Shape; 9] = [Shape::SetOpt, Shape::AppendOpt, Shape::AppendOpt0, Shape::Count, Shape::SetTrue, Shape::SetFalse, Shape::PosSet, Shape::PosAppend, Shape::PosAppend1];
/// `args_override_self_on_parent`: the setting is made on the root only (documented to reach every
/// child) and x, y, z live in a subcommand; every line starts with `sub`
const SELF_MODES: [&str; 4] = ["none", "args_override_self", "overrides_with_self", "args_override_self_on_parent"];
/// (from, to) override edges
const RELS: [&[(&str, &str)]; 8] = [
    &[],
    &[("x", "y")],
    &[("y", "x")],
    &[("x", "y"), ("y", "x")],
    &[("x", "z"), ("y", "z")],
    &[("z", "x"), ("z", "y")],
    &[("y", "x"), ("z", "x")],
    &[("x", "y"), ("x", "z")],
];

fn build_spec(shape: Shape, self_mode: &str, rel: &[(&str, &str)]) -> CmdSpec {
    let mut c = CmdSpec::new("prog");
    let mut x = match shape {
        Shape::SetOpt | Shape::AppendOpt | Shape::AppendOpt0 => ArgSpec::opt("x", Some('x'), Some("x")),
        Shape::Count | Shape::SetTrue | Shape::SetFalse => ArgSpec::flag("x", Some('x'), Some("x")),
        Shape::PosSet | Shape::PosAppend => {
            let mut p = ArgSpec::pos("x", 1);
            p.num_args = Some((1, None));
            p
        }
        Shape::PosAppend1 => ArgSpec::pos("x", 1),
    };
    x.action = Some(match shape {
        Shape::SetOpt | Shape::PosSet => Act::Set,
        Shape::AppendOpt | Shape::AppendOpt0 | Shape::PosAppend | Shape::PosAppend1 => Act::Append,
        Shape::Count => Act::Count,
        Shape::SetTrue => Act::SetTrue,
        Shape::SetFalse => Act::SetFalse,
    });
    if shape == Shape::AppendOpt0 {
        x.num_args = Some((0, Some(1)));
        x.require_equals = true;
    }
    if self_mode == "overrides_with_self" {
        x.overrides.push("x".into());
    }
    if self_mode == "args_override_self" {
        c.set(Setting::ArgsOverrideSelf);
    }
    let mut y = ArgSpec::flag("y", Some('y'), Some("y"));
    let mut z = ArgSpec::flag("z", Some('z'), Some("z"));
    for (f, t) in rel {
        match *f {
            "x" => x.overrides.push(t.to_string()),
            "y" => y.overrides.push(t.to_string()),
            _ => z.overrides.push(t.to_string()),
        }
    }
    if self_mode == "args_override_self_on_parent" {
        c.set(Setting::ArgsOverrideSelf);
        let mut s = CmdSpec::new("sub");
        s.args.push(x);
        s.args.push(y);
        s.args.push(z);
        c.subs.push(s);
        return c;
    }
    c.args.push(x);
    c.args.push(y);
    c.args.push(z);
    c
}

#[derive(Clone, Debug, PartialEq, Eq)]
enum Tok {
    X(Option<&'static str>),
    Y,
    Z,
}

fn tokens(shape: Shape) -> Vec<Tok> {
    match shape {
        Shape::SetOpt | Shape::AppendOpt | Shape::PosSet | Shape::PosAppend | Shape::PosAppend1 => vec![Tok::X(Some("v1")), Tok::X(Some("v2")), Tok::Y, Tok::Z],
        Shape::AppendOpt0 => vec![Tok::X(Some("v1")), Tok::X(None), Tok::Y, Tok::Z],
        _ => vec![Tok::X(None), Tok::Y, Tok::Z],
    }
}

fn spell(shape: Shape, seq: &[Tok]) -> Vec<Vec<u8>> {
    let mut out = vec![];
    for t in seq {
        match t {
            Tok::X(Some(v)) => match shape {
                Shape::PosSet | Shape::PosAppend | Shape::PosAppend1 => out.push(v.as_bytes().to_vec()),
                _ if shape == Shape::AppendOpt0 => out.push(format!("--x={}", v).into_bytes()),
                _ => {
                    out.push(b"--x".to_vec());
                    out.push(v.as_bytes().to_vec());
                }
            },
            Tok::X(None) => out.push(b"--x".to_vec()),
            Tok::Y => out.push(b"--y".to_vec()),
            Tok::Z => out.push(b"--z".to_vec()),
        }
    }
    out
}

/// R4: the fold. Returns Err(()) when a non-overriding repeat must be rejected as a conflict.
#[derive(Clone, Debug, PartialEq, Eq)]
struct Folded {
    /// for value-taking x: occurrences; for flags: one empty occurrence per count
    x: Vec<Vec<String>>,
    y: bool,
    z: bool,
}

fn fold(spec: &CmdSpec, shape: Shape, seq: &[Tok]) -> Result<Folded, String> {
    let global_self = spec.has(Setting::ArgsOverrideSelf);
    let mut st: BTreeMap<&str, Vec<Vec<String>>> = BTreeMap::new();
    // positional values group by contiguous run
    let mut prev_was_pos_x = false;
    for t in seq {
        let (id, val): (&str, Option<&str>) = match t {
            Tok::X(v) => ("x", *v),
            Tok::Y => ("y", None),
            Tok::Z => ("z", None),
        };
        let a = spec.arg(id).unwrap();
        let is_pos = a.is_positional();
        if is_pos && prev_was_pos_x && id == "x" && shape != Shape::PosAppend1 {
            // continues the current occurrence
            if let Some(o) = st.get_mut("x") {
                if let Some(l) = o.last_mut() {
                    l.push(val.unwrap().to_string());
                    continue;
                }
            }
        }
        prev_was_pos_x = is_pos && id == "x";
        // a new occurrence of `id`: overrides in both directions
        for o in &a.overrides {
            if o != id {
                st.remove(o.as_str());
            }
        }
        let overriders: Vec<&str> = st
            .keys()
            .copied()
            .filter(|k| *k != id && spec.arg(k).map(|b| b.overrides.iter().any(|o| o == id)).unwrap_or(false))
            .collect();
        for k in overriders {
            st.remove(k);
        }
        let self_over = global_self || a.overrides.iter().any(|o| o == id);
        let act = a.action.unwrap();
        let occ: Vec<String> = val.map(|v| vec![v.to_string()]).unwrap_or_default();
        match act {
            Act::Append => st.entry(id).or_default().push(occ),
            Act::Count => st.entry(id).or_default().push(occ),
            Act::Set | Act::SetTrue | Act::SetFalse => {
                if st.contains_key(id) && !self_over {
                    return Err(format!("repeat of non-overriding {}", id));
                }
                st.insert(id, vec![occ]);
            }
            _ => {}
        }
    }
    let _ = shape;
    Ok(Folded {
        x: st.get("x").cloned().unwrap_or_default(),
        y: st.contains_key("y"),
        z: st.contains_key("z"),
    })
}

fn read_x(m: &ArgMatches, shape: Shape) -> (Vec<Vec<String>>, String) {
    match shape {
        Shape::SetOpt | Shape::AppendOpt | Shape::AppendOpt0 | Shape::PosSet | Shape::PosAppend | Shape::PosAppend1 => {
            let occ: Vec<Vec<String>> = m
                .get_occurrences::<String>("x")
                .map(|o| o.map(|g| g.cloned().collect()).collect())
                .unwrap_or_default();
            let one = m.get_one::<String>("x").cloned().unwrap_or_default();
            (occ, one)
        }
        Shape::Count => {
            let n = m.get_count("x");
            ((0..n).map(|_| vec![]).collect(), n.to_string())
        }
        Shape::SetTrue => {
            let f = m.get_flag("x");
            (if f { vec![vec![]] } else { vec![] }, f.to_string())
        }
        Shape::SetFalse => {
            let f = m.get_flag("x");
            (if !f { vec![vec![]] } else { vec![] }, f.to_string())
        }
    }
}

fn judge(spec: &CmdSpec, cmd: &clap::Command, shape: Shape, seq: &[Tok], argv: &[Vec<u8>], h: &mut Hist) -> Vec<(String, String)> {
    // nested mode: the arguments live in `sub`, the root's setting applies there as well
    let nested = !spec.subs.is_empty();
    let level_spec: CmdSpec = if nested {
        let mut s = spec.subs[0].clone();
        s.set(Setting::ArgsOverrideSelf);
        s
    } else {
        spec.clone()
    };
    let spec = &level_spec;
    let mut line: Vec<Vec<u8>> = vec![];
    if nested {
        line.push(b"sub".to_vec());
    }
    line.extend(argv.iter().cloned());
    let argv = &line[..];
    let want = fold(spec, shape, seq);
    let got = cmd.clone().try_get_matches_from(argv_os("prog", argv)).map(|m| if nested { m.subcommand_matches("sub").cloned().unwrap_or(m) } else { m });
    let mut bad = vec![];
    match (want, got) {
        (Err(why), Ok(m)) => {
            let (occ, _) = read_x(&m, shape);
            bad.push((
                format!("{:?}: a repeated occurrence without self-override is accepted", shape),
                format!("{}; x = {:?}", why, occ),
            ));
        }
        (Err(_), Err(e)) => {
            h.bump("conflict/agreed");
            if e.kind() != clap::error::ErrorKind::ArgumentConflict {
                bad.push((format!("{:?}: a repeat is rejected but not as a conflict", shape), format!("kind {:?}", e.kind())));
            }
        }
        (Ok(w), Err(e)) => bad.push((
            format!("{:?}: a line the action semantics accept is rejected ({:?})", shape, e.kind()),
            format!("expected x = {:?}", w.x),
        )),
        (Ok(w), Ok(m)) => {
            h.bump("ok/compared");
            if seq.len() >= 2 {
                h.nontrivial += 1;
            }
            let (occ, one) = read_x(&m, shape);
            let src = m.value_source("x");
            let x_on_line = !w.x.is_empty();
            match shape {
                Shape::Count => {
                    let n = w.x.len().min(255);
                    if one != n.to_string() {
                        bad.push(("Count: counter differs from the (saturating) number of occurrences".into(), format!("got {} want {}", one, n)));
                    }
                }
                Shape::SetTrue | Shape::SetFalse => {
                    let truth = if shape == Shape::SetTrue { x_on_line } else { !x_on_line };
                    if one != truth.to_string() {
                        bad.push((format!("{:?}: flag truth value wrong", shape), format!("got {} want {}", one, truth)));
                    }
                }
                Shape::SetOpt | Shape::PosSet => {
                    let want_last: Vec<Vec<String>> = w.x.last().cloned().map(|l| vec![l]).unwrap_or_default();
                    if occ != want_last {
                        bad.push((format!("{:?}: final value is not that of the last surviving occurrence", shape), format!("got {:?} want {:?}", occ, want_last)));
                    }
                }
                Shape::AppendOpt | Shape::AppendOpt0 | Shape::PosAppend | Shape::PosAppend1 => {
                    if occ != w.x {
                        let cause = if occ.concat() == w.x.concat() {
                            format!("{:?}: occurrence boundaries not kept", shape)
                        } else {
                            format!("{:?}: values are not all surviving occurrences in command-line order", shape)
                        };
                        bad.push((cause, format!("got {:?} want {:?}", occ, w.x)));
                    }
                }
            }
            let explicit = matches!(src, Some(clap::parser::ValueSource::CommandLine));
            if explicit != x_on_line {
                bad.push((
                    format!("{:?}: source does not reflect whether an occurrence survives", shape),
                    format!("source {:?}, surviving occurrences {:?}", src, w.x),
                ));
            }
            for (id, wv) in [("y", w.y), ("z", w.z)] {
                if m.get_flag(id) != wv {
                    bad.push((
                        "override relation: the later-given argument is not what remains".into(),
                        format!("{} = {} want {}", id, m.get_flag(id), wv),
                    ));
                }
            }
        }
    }
    bad
}

fn tok_names(seq: &[Tok]) -> Vec<String> {
    seq.iter()
        .map(|t| match t {
            Tok::X(Some(v)) => format!("x={}", v),
            Tok::X(None) => "x".into(),
            Tok::Y => "y".into(),
            Tok::Z => "z".into(),
        })
        .collect()
}

fn parse_toks(v: &Value) -> Vec<Tok> {
    v.as_array()
        .map(|a| {
            a.iter()
                .map(|s| match s.as_str().unwrap_or("") {
                    "x=v1" => Tok::X(Some("v1")),
                    "x=v2" => Tok::X(Some("v2")),
                    "x" => Tok::X(None),
                    "y" => Tok::Y,
                    _ => Tok::Z,
                })
                .collect()
        })
        .unwrap_or_default()
}

fn shape_of(s: &str) -> Shape {
    SHAPES.iter().copied().find(|x| format!("{:?}", x) == s).unwrap_or(Shape::SetOpt)
}

fn recheck(case: &Value) -> Vec<Violation> {
    let Ok(spec) = CmdSpec::from_json(&case["spec"]) else { return vec![] };
    let shape = shape_of(case["shape"].as_str().unwrap_or(""));
    let seq = parse_toks(&case["sequence"]);
    let argv = unhex_argv(&case["argv_hex"]);
    let Ok(cmd) = build_valid(&spec) else { return vec![] };
    let mut h = Hist::new();
    match catch(|| judge(&spec, &cmd, shape, &seq, &argv, &mut h)) {
        Ok(b) => b.into_iter().map(|(c, w)| Violation { cause: c, order: (0, 0), what: w, case: case.clone() }).collect(),
        Err(p) => vec![Violation { cause: p.key(), order: (0, 0), what: p.show(), case: case.clone() }],
    }
}

fn main() {
    let cli = Cli::parse();
    install_silent_hook();
    fix_env();
    let tier = match &cli.mode {
        Mode::Replay(p) => run_replay(PROP, p, &recheck),
        Mode::Explore(t) => *t,
    };
    let rep = Report::new(PROP, tier, cli.seed);
    let n = tier.pick(4usize, 8usize);
    rep.rule("block = (shape of x, self-override mode, override relation); case = one occurrence sequence of length <= n over {x(v1), x(v2), y, z} (spelled --x v / positional v / --y / --z), plus for Count every repeat count 0..=300 as separate tokens and as one short cluster with a foreign flag at start/middle/end. The real result is compared with the fold-by-action reference. non-trivial = successful parses of sequences with >= 2 occurrences");
    rep.set("bounds", json!({"shapes": SHAPES.iter().map(|s| format!("{:?}", s)).collect::<Vec<_>>(), "self_modes": SELF_MODES, "override_relations": RELS.len(), "max_sequence_len": n, "count_repeats": "0..=300"}));
    rep.assume("an override relation is taken to act in both directions at each new occurrence (documented: 'whichever argument was specified last wins'); after an override removes an argument its count/values start afresh");

    let mut blocks: Vec<(Shape, &str, usize)> = vec![];
    for s in SHAPES {
        for sm in SELF_MODES {
            // `Append` together with an explicit overrides_with(self) is contradictory and pinned
            // by neither the property nor the documentation: not enumerated
            if matches!(s, Shape::AppendOpt | Shape::AppendOpt0 | Shape::PosAppend | Shape::PosAppend1) && sm == "overrides_with_self" {
                continue;
            }
            for r in 0..RELS.len() {
                blocks.push((s, sm, r));
            }
        }
    }
    let rejected = std::sync::atomic::AtomicU64::new(0);
    par_blocks(blocks.len(), |bi, _| {
        let (shape, sm, r) = blocks[bi];
        let spec = build_spec(shape, sm, RELS[r]);
        let cmd = match build_valid(&spec) {
            Ok(c) => c,
            Err(_) => {
                rejected.fetch_add(1, std::sync::atomic::Ordering::Relaxed);
                return;
            }
        };
        let toks = tokens(shape);
        let mut h = Hist::new();
        let mut idx = 0u64;
        let mut run = |seq: &[Tok], argv: &[Vec<u8>], h: &mut Hist, idx: u64| {
            h.evaluations += 1;
            h.states += 1;
            h.transitions += 1;
            h.validated += 1;
            let mk = || json!({"shape": format!("{:?}", shape), "self_mode": sm, "overrides": RELS[r], "spec": spec.to_json(), "sequence": tok_names(seq), "argv_hex": hex_argv(argv), "argv_shown": if argv.len() > 12 { json!(format!("{} tokens", argv.len())) } else { show_argv(argv) }});
            let order = (bi as u64, idx);
            let what_head = format!("x={:?} self={} overrides={:?} sequence {:?}", shape, sm, RELS[r], if seq.len() > 12 { vec![format!("{} occurrences", seq.len())] } else { tok_names(seq) });
            match catch(|| judge(&spec, &cmd, shape, seq, argv, h)) {
                Ok(bad) => {
                    for (c, w) in bad {
                        rep.violation(Violation { cause: c.clone(), order, what: format!("{}: {} ({})", what_head, c, w), case: mk() });
                    }
                }
                Err(p) => rep.violation(Violation { cause: p.key(), order, what: format!("{}: {}", what_head, p.show()), case: mk() }),
            }
        };
        let mut seq: Vec<Tok> = vec![];
        for_each_seq(toks.len(), n, |s| {
            seq.clear();
            seq.extend(s.iter().map(|i| toks[*i].clone()));
            let argv = spell(shape, &seq);
            idx += 1;
            run(&seq, &argv, &mut h, idx);
        });
        if shape == Shape::Count {
            for reps in 0..=300usize {
                for foreign in [None, Some(0usize), Some(reps / 2), Some(reps)] {
                    let mut seq: Vec<Tok> = vec![];
                    for i in 0..=reps {
                        if Some(i) == foreign {
                            seq.push(Tok::Y);
                        }
                        if i < reps {
                            seq.push(Tok::X(None));
                        }
                    }
                    // separate tokens
                    let argv = spell(shape, &seq);
                    idx += 1;
                    run(&seq, &argv, &mut h, idx);
                    // one cluster -xxxx…
                    let mut cl = b"-".to_vec();
                    for t in &seq {
                        cl.push(match t {
                            Tok::X(_) => b'x',
                            Tok::Y => b'y',
                            Tok::Z => b'z',
                        });
                    }
                    if cl.len() > 1 {
                        idx += 1;
                        run(&seq, &[cl], &mut h, idx);
                    }
                }
            }
        }
        if bi == 0 || bi == blocks.len() / 2 || bi == blocks.len() - 1 {
            rep.sample(json!({"shape": format!("{:?}", shape), "self_mode": sm, "overrides": RELS[r], "last_sequence": tok_names(&seq)}));
        }
        rep.merge(&h);
    });
    rep.set("configurations", json!({"enumerated": blocks.len(), "rejected_by_validity_gate": rejected.load(std::sync::atomic::Ordering::Relaxed)}));
    rep.finish(&recheck);
}
