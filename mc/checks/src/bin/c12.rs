//! C12 — help and usage always render, list every visible item and nothing hidden.
//!
//! Space: help-shape configurations (<= N args from 15 shapes x 14 per-arg modifiers x 11 command
//! modifiers; always one visible and one hidden subcommand) x terminal widths x 7 entry points
//! (render_help, render_long_help, render_usage, the errors from `-h`, `--help`, `viscmd -h`).
//! Oracle: no panic / abort; bounded padding; with the default template every argument and
//! subcommand visible in that mode is listed in its section, hidden markers occur nowhere; the help
//! flag yields the help of the level it was given at.

use mccore::report::run_replay;
use mccore::sup::{self, Journal};
use mccore::*;
use mcmodel::*;
use serde_json::{json, Value};

const PROP: &str = "C12";

const SHAPES: [&str; 15] = [
    "flag-short", "flag-long", "flag-both", "count-short", "count-long", "opt-short", "opt-long", "opt-both", "opt-optional", "opt-req-eq", "opt-multi", "pos-required", "pos-optional", "pos-multi", "pos-last",
];
const MODS: [&str; 21] = [
    "none", "hide", "hide-short-help", "hide-long-help", "next-line-help", "heading", "long-help", "possible-values", "possible-values-unicode", "default", "env", "visible-alias", "long-text", "possible-values-all-hidden",
    // combinations (applied left to right): the short/long decision of `--help` reads several of these
    "arg-hide-pv", "possible-values+arg-hide-pv", "hide-short-help+arg-hide-pv", "hide-long-help+arg-hide-pv", "hide-short-help+possible-values", "hide-short-help+heading",
    // a heading that is the empty string: the argument still has to be listed somewhere
    "empty-heading",
];
const CMODS: [&str; 14] = [
    // a running help heading for arguments without one, with and without display orders
    "next-heading-alphabetical",
    "none", "next-line-help", "flatten-help", "tmpl-options", "tmpl-positionals", "tmpl-subcommands", "tmpl-all-args", "sub-heading", "before-after", "flatten-equal-display-order", "hide-possible-values",
    // every argument gets the same display order and the second short is the first one's capital
    "equal-order-case-shorts",
    // the same with a non-ASCII pair (é / É)
    "equal-order-unicode-case-shorts",
];

fn mk_arg(n: usize, shape: &str, m: &str) -> ArgSpec {
    let id = format!("arg{}", n);
    let s = if n == 0 { 'x' } else if n == 1 { 'y' } else { 'w' };
    let l = format!("long{}", n);
    let mut a = match shape {
        "flag-short" => ArgSpec::flag(&id, Some(s), None),
        "flag-long" => ArgSpec::flag(&id, None, Some(&l)),
        "flag-both" => ArgSpec::flag(&id, Some(s), Some(&l)),
        "count-short" => {
            let mut a = ArgSpec::flag(&id, Some(s), None);
            a.action = Some(Act::Count);
            a
        }
        "count-long" => {
            let mut a = ArgSpec::flag(&id, None, Some(&l));
            a.action = Some(Act::Count);
            a
        }
        "opt-short" => ArgSpec::opt(&id, Some(s), None),
        "opt-long" => ArgSpec::opt(&id, None, Some(&l)),
        "opt-both" => ArgSpec::opt(&id, Some(s), Some(&l)),
        "opt-optional" => {
            let mut a = ArgSpec::opt(&id, Some(s), Some(&l));
            a.num_args = Some((0, Some(1)));
            a
        }
        "opt-req-eq" => {
            let mut a = ArgSpec::opt(&id, Some(s), Some(&l));
            a.require_equals = true;
            a
        }
        "opt-multi" => {
            let mut a = ArgSpec::opt(&id, Some(s), Some(&l));
            a.num_args = Some((1, None));
            a
        }
        "pos-required" => {
            let mut a = ArgSpec::pos(&id, n + 1);
            a.required = true;
            a
        }
        "pos-optional" => ArgSpec::pos(&id, n + 1),
        "pos-multi" => {
            let mut a = ArgSpec::pos(&id, n + 1);
            a.num_args = Some((1, None));
            a
        }
        _ => {
            let mut a = ArgSpec::pos(&id, n + 1);
            a.last = true;
            a
        }
    };
    if a.act().takes_values() && !matches!(a.action, Some(Act::Count | Act::SetTrue)) {
        a.value_names = vec![format!("VAL{}", n)];
    }
    a.help = Some(format!("HELPMARK{}", n));
    let takes = a.act().takes_values() && a.action != Some(Act::Count) && a.action != Some(Act::SetTrue);
    for m in m.split('+') {
    match m {
        "arg-hide-pv" => a.hide_possible_values = true,
        "hide" => a.hide = true,
        "hide-short-help" => a.hide_short_help = true,
        "hide-long-help" => a.hide_long_help = true,
        "next-line-help" => a.next_line_help = true,
        "heading" => a.help_heading = Some("CUSTOMHEAD".into()),
        "empty-heading" => a.help_heading = Some(String::new()),
        "long-help" => a.long_help = Some(format!("LONGHELPMARK{} with a second sentence that is somewhat longer", n)),
        "possible-values" if takes => {
            a.parser = Vp::Pv(vec![
                PvSpec { name: "fast".into(), help: Some("PVHELPfast".into()), ..Default::default() },
                PvSpec { name: "slow".into(), ..Default::default() },
                PvSpec { name: "HIDDENPV".into(), hide: true, help: Some("PVHELPhidden".into()), ..Default::default() },
            ]);
        }
        "possible-values-unicode" if takes => {
            a.parser = Vp::Pv(vec![
                PvSpec { name: "café".into(), help: Some("PVHELPcafe".into()), ..Default::default() },
                PvSpec { name: "tea".into(), help: Some("PVHELPtea".into()), ..Default::default() },
                PvSpec { name: "日本".into(), ..Default::default() },
            ]);
        }
        "possible-values-all-hidden" if takes => {
            a.parser = Vp::Pv(vec![
                PvSpec { name: "HIDDENPV".into(), hide: true, help: Some("PVHELPhidden".into()), ..Default::default() },
                PvSpec { name: "HIDDENPV2".into(), hide: true, ..Default::default() },
            ]);
        }
        "default" if takes => a.default = vec!["dflt".into()],
        "env" => a.env = Some("CLAPMC_UNSET".into()),
        "visible-alias" if a.long.is_some() => a.visible_aliases.push(format!("valias{}", n)),
        "long-text" => a.help = Some(format!("HELPMARK{} {}", n, "word ".repeat(30))),
        _ => {}
    }
    }
    a
}

fn mk_cmd(args: Vec<ArgSpec>, cm: &str, width: usize) -> CmdSpec {
    let mut c = CmdSpec::new("prog");
    c.about = Some("ABOUTROOT".into());
    c.term_width = Some(width);
    c.args = args;
    let mut vis = CmdSpec::new("viscmd");
    vis.about = Some("ABOUTVIS".into());
    vis.visible_aliases.push("visalias".into());
    vis.args.push({
        let mut a = ArgSpec::flag("subflag", Some('s'), Some("subflag"));
        a.help = Some("SUBHELPMARK".into());
        a
    });
    let mut hid = CmdSpec::new("hidcmd");
    hid.hide = true;
    hid.about = Some("ABOUTHIDDEN".into());
    hid.visible_aliases.push("hidalias".into());
    let mut vis2 = CmdSpec::new("vistwo");
    vis2.about = Some("ABOUTVIS2".into());
    vis2.args.push({
        let mut a = ArgSpec::flag("twoflag", None, Some("twoflag"));
        a.help = Some("TWOHELPMARK".into());
        a
    });
    match cm {
        "next-line-help" => c.set(Setting::NextLineHelp),
        "flatten-help" => c.set(Setting::FlattenHelp),
        "tmpl-options" => c.template = Some("{usage-heading} {usage}\n{options}".into()),
        "tmpl-positionals" => c.template = Some("{positionals}".into()),
        "tmpl-subcommands" => c.template = Some("{name} {version}\n{subcommands}".into()),
        "tmpl-all-args" => c.template = Some("{before-help}{about-with-newline}{all-args}{after-help}".into()),
        "sub-heading" => {
            c.subcommand_help_heading = Some("SUBHEAD".into());
            c.subcommand_value_name = Some("SUBVAL".into());
        }
        "before-after" => {
            c.before_help = Some("BEFOREMARK".into());
            c.after_help = Some("AFTERMARK".into());
            c.after_long_help = Some("AFTERLONGMARK".into());
        }
        "flatten-equal-display-order" => {
            c.set(Setting::FlattenHelp);
        }
        "hide-possible-values" => c.set(Setting::HidePossibleValues),
        "next-heading-alphabetical" => {
            c.next_help_heading = Some("NEXTHEAD".into());
            c.next_display_order_none = true;
        }
        "equal-order-unicode-case-shorts" => {
            for a in c.args.iter_mut() {
                a.display_order = Some(0);
            }
            if c.args.len() >= 2 && c.args[0].short.is_some() && c.args[1].short.is_some() {
                c.args[0].short = Some('é');
                c.args[1].short = Some('É');
            }
        }
        "equal-order-case-shorts" => {
            for a in c.args.iter_mut() {
                a.display_order = Some(0);
            }
            if c.args.len() >= 2 && c.args[0].short.is_some() && c.args[1].short.is_some() {
                c.args[1].short = c.args[0].short.map(|s| s.to_ascii_uppercase());
            }
        }
        _ => {}
    }
    c.subs.push(vis);
    c.subs.push(hid);
    c.subs.push(vis2);
    // a hidden subcommand that has nothing but its name
    let mut bare = CmdSpec::new("hidbare");
    bare.hide = true;
    c.subs.push(bare);
    c
}

/// `display_order` is not part of CmdSpec: apply it on the built command for that modifier.
fn build_cmd(spec: &CmdSpec, cm: &str) -> clap::Command {
    let c = build(spec);
    if cm == "flatten-equal-display-order" {
        c.mut_subcommand("viscmd", |s| s.display_order(1)).mut_subcommand("vistwo", |s| s.display_order(1))
    } else {
        c
    }
}

struct Render {
    name: &'static str,
    long: bool,
    text: String,
    sub_level: bool,
    usage_only: bool,
}

fn renders(cmd: &clap::Command) -> Vec<Render> {
    let mut v = vec![];
    v.push(Render { name: "render_help", long: false, text: cmd.clone().render_help().to_string(), sub_level: false, usage_only: false });
    v.push(Render { name: "render_long_help", long: true, text: cmd.clone().render_long_help().to_string(), sub_level: false, usage_only: false });
    v.push(Render { name: "render_usage", long: false, text: cmd.clone().render_usage().to_string(), sub_level: false, usage_only: true });
    for (name, argv, long, sub) in [
        ("-h", vec!["prog", "-h"], false, false),
        ("--help", vec!["prog", "--help"], true, false),
        ("viscmd -h", vec!["prog", "viscmd", "-h"], false, true),
        ("help viscmd", vec!["prog", "help", "viscmd"], true, true),
    ] {
        match cmd.clone().try_get_matches_from(argv) {
            Err(e) if e.kind() == clap::error::ErrorKind::DisplayHelp => v.push(Render { name, long, text: e.render().to_string(), sub_level: sub, usage_only: false }),
            Err(e) => v.push(Render { name, long, text: format!("<<not help: {:?}>>", e.kind()), sub_level: sub, usage_only: true }),
            Ok(_) => v.push(Render { name, long, text: "<<parsed>>".into(), sub_level: sub, usage_only: true }),
        }
    }
    // after an explicit `Command::build` (help tree expanded for introspection): the help of the
    // generated `help` subcommand, asked for on the line and rendered directly. Only the clauses
    // that hold for every output apply (size, padding, nothing hidden).
    {
        let mut b = cmd.clone();
        b.build();
        if let Err(e) = b.clone().try_get_matches_from_mut(["prog", "help", "help"]) {
            v.push(Render { name: "built: help help", long: true, text: e.render().to_string(), sub_level: false, usage_only: true });
        }
        if let Some(h) = b.find_subcommand_mut("help") {
            v.push(Render { name: "built: render_help of help", long: false, text: h.render_help().to_string(), sub_level: false, usage_only: true });
            v.push(Render { name: "built: render_long_help of help", long: true, text: h.render_long_help().to_string(), sub_level: false, usage_only: true });
        }
    }
    v
}

/// Lines of the section introduced by `heading:` (until the next blank line or unindented line).
fn section<'a>(text: &'a str, heading: &str) -> Option<Vec<&'a str>> {
    let mut it = text.lines();
    while let Some(l) = it.next() {
        if l.trim_end() == format!("{}:", heading) {
            let mut out = vec![];
            for m in it.by_ref() {
                // long help separates entries by blank lines; the section ends at the next
                // unindented (heading / usage) line
                if m.trim().is_empty() {
                    continue;
                }
                if !m.starts_with(' ') {
                    break;
                }
                out.push(m);
            }
            return Some(out);
        }
    }
    None
}

fn check(spec: &CmdSpec, shapes: &[(String, String)], cm: &str) -> Vec<(String, String)> {
    let mut bad = vec![];
    let cmd = build_cmd(spec, cm);
    let default_template = spec.template.is_none();
    let flatten = spec.has(Setting::FlattenHelp);
    for r in renders(&cmd) {
        let t = &r.text;
        if t.len() > (1 << 20) {
            bad.push((format!("{}: output larger than 1 MiB", r.name), format!("{} bytes", t.len())));
            continue;
        }
        let mut run = 0;
        let mut maxrun = 0;
        for ch in t.chars() {
            if ch == ' ' {
                run += 1;
                maxrun = maxrun.max(run);
            } else {
                run = 0;
            }
        }
        if maxrun > 512 {
            bad.push((format!("{}: unbounded padding", r.name), format!("a run of {} spaces", maxrun)));
        }
        if r.name != "render_usage" && !r.name.starts_with("built:") && r.usage_only {
            bad.push((format!("{}: the help flag did not produce help", r.name), t.clone()));
            continue;
        }
        // hidden markers nowhere
        for marker in ["hidcmd", "hidalias", "hidbare", "ABOUTHIDDEN", "HIDDENPV", "PVHELPhidden"] {
            if t.contains(marker) {
                bad.push((format!("a hidden item appears in the output ({})", if marker.contains("PV") { "hidden possible value" } else { "hidden subcommand" }), format!("{}: found {:?}", r.name, marker)));
            }
        }
        for (n, a) in spec.args.iter().enumerate() {
            if a.hide && !a.required {
                for marker in [format!("HELPMARK{}", n), format!("long{}", n), format!("VAL{}", n)] {
                    if t.contains(&marker) && !r.sub_level {
                        bad.push(("an optional hidden argument appears in the output".into(), format!("{}: found {:?}", r.name, marker)));
                    }
                }
            }
        }
        // hidden in this mode only (hide_short_help / hide_long_help): its help text is absent from
        // the renderings of that mode
        if !r.usage_only && !r.sub_level {
            for (n, a) in spec.args.iter().enumerate() {
                let mode_hidden = !a.hide && ((r.long && a.hide_long_help) || (!r.long && a.hide_short_help));
                if mode_hidden && !a.required && t.contains(&format!("HELPMARK{}", n)) {
                    bad.push(("an argument hidden from this help mode appears in it".into(), format!("{}: found HELPMARK{} ({})", r.name, n, if r.long { "long" } else { "short" })));
                }
            }
        }
        if r.sub_level {
            let usage_ok = t.lines().any(|l| {
                // parent's required arguments may sit between the names: `prog <VAL0> viscmd`
                l.contains("prog") && l.split_whitespace().skip_while(|w| *w != "prog").any(|w| w == "viscmd")
            });
            if !usage_ok {
                bad.push(("subcommand help does not show the subcommand's usage".into(), format!("{}: {:?}", r.name, t.lines().find(|l| l.contains("Usage")).unwrap_or(""))));
            }
            if !t.contains("SUBHELPMARK") {
                bad.push(("subcommand help does not list the subcommand's own argument".into(), r.name.to_string()));
            }
            for marker in ["ABOUTROOT", "HELPMARK0", "HELPMARK1", "TWOHELPMARK"] {
                if t.contains(marker) {
                    bad.push(("the help flag given at a subcommand shows another level's help".into(), format!("{}: found {:?}", r.name, marker)));
                }
            }
            continue;
        }
        if r.usage_only || !default_template {
            continue;
        }
        // every visible argument is listed in its section
        for (n, a) in spec.args.iter().enumerate() {
            let hidden_here = a.hide || (r.long && a.hide_long_help) || (!r.long && a.hide_short_help);
            if hidden_here {
                continue;
            }
            let heading = a.help_heading.clone().or_else(|| spec.next_help_heading.clone()).unwrap_or_else(|| if a.is_positional() { "Arguments".into() } else { "Options".into() });
            // an empty heading has no recognisable title line: the entry may stand anywhere
            let all_lines: Vec<&str> = t.lines().filter(|l| l.starts_with(' ')).collect();
            let Some(lines) = (if heading.is_empty() { Some(all_lines) } else { section(t, &heading) }) else {
                bad.push(("a visible argument's section is missing".into(), format!("{}: no `{}:` section for {} ({})", r.name, heading, a.id, shapes[n].0)));
                continue;
            };
            let listed = lines.iter().any(|l| {
                let x = l.trim_start();
                if a.is_positional() {
                    x.starts_with(&format!("<VAL{}>", n)) || x.starts_with(&format!("[VAL{}]", n))
                } else if let Some(s) = a.short {
                    x.starts_with(&format!("-{}", s))
                } else {
                    x.starts_with(&format!("--long{}", n))
                }
            });
            if !listed {
                bad.push(("a visible argument is not listed in its section".into(), format!("{}: {} ({}, {}) not under `{}:`", r.name, a.id, shapes[n].0, shapes[n].1, heading)));
            }
        }
        // subcommands
        let sub_head = spec.subcommand_help_heading.clone().unwrap_or_else(|| "Commands".into());
        for name in ["viscmd", "vistwo"] {
            let ok = if flatten {
                t.lines().any(|l| l.contains("prog") && l.split_whitespace().any(|w| w == name))
            } else {
                section(t, &sub_head).map(|ls| ls.iter().any(|l| l.trim_start().starts_with(name))).unwrap_or(false)
            };
            if !ok {
                bad.push(("a visible subcommand is not listed".into(), format!("{}: {}", r.name, name)));
            }
            if flatten && !t.lines().any(|l| l.starts_with("prog ") && l.trim_end().ends_with(&format!(" {}:", name))) {
                bad.push(("flattened help drops a visible subcommand's section".into(), format!("{}: no `prog {}:` section", r.name, name)));
            }
        }
    }
    bad
}

struct Cfg {
    shapes: Vec<(String, String)>,
    cm: &'static str,
}

fn cfgs(max_args: usize) -> Vec<Cfg> {
    let mut out = cfgs12(max_args.min(2));
    if max_args >= 3 {
        // three plain arguments of every shape combination, default and flattened layout
        for cm in ["none", "flatten-help"] {
            for a in 0..SHAPES.len() {
                for b in 0..SHAPES.len() {
                    for c in 0..SHAPES.len() {
                        out.push(Cfg { shapes: vec![(SHAPES[a].into(), "none".into()), (SHAPES[b].into(), "heading".into()), (SHAPES[c].into(), "none".into())], cm });
                    }
                }
            }
        }
    }
    out
}

fn cfgs12(max_args: usize) -> Vec<Cfg> {
    let mut out = vec![];
    let pairs: Vec<(usize, usize)> = (0..SHAPES.len()).flat_map(|s| (0..MODS.len()).map(move |m| (s, m))).collect();
    for cm in CMODS {
        out.push(Cfg { shapes: vec![], cm });
        for &(s, m) in &pairs {
            out.push(Cfg { shapes: vec![(SHAPES[s].into(), MODS[m].into())], cm });
        }
    }
    if max_args >= 2 {
        // second argument: every shape with a reduced modifier set, command modifier reduced too
        for cm in ["none", "next-line-help", "flatten-help", "equal-order-case-shorts", "equal-order-unicode-case-shorts"] {
            for &(s, m) in &pairs {
                for s2 in 0..SHAPES.len() {
                    for m2 in ["none", "hide", "heading", "next-line-help"] {
                        out.push(Cfg { shapes: vec![(SHAPES[s].into(), MODS[m].into()), (SHAPES[s2].into(), m2.into())], cm });
                    }
                }
            }
        }
    }
    out
}

fn spec_of(c: &Cfg, width: usize) -> Option<CmdSpec> {
    // positional shapes must come in a legal order: required before optional, multi/last last
    let args: Vec<ArgSpec> = c.shapes.iter().enumerate().map(|(n, (s, m))| mk_arg(n, s, m)).collect();
    Some(mk_cmd(args, c.cm, width))
}

fn recheck(case: &Value) -> Vec<Violation> {
    let Ok(spec) = CmdSpec::from_json(&case["spec"]) else { return vec![] };
    let cm = CMODS.into_iter().find(|c| Some(*c) == case["cmod"].as_str()).unwrap_or("none");
    let shapes: Vec<(String, String)> = case["shapes"].as_array().map(|a| a.iter().map(|p| (p[0].as_str().unwrap_or("").to_string(), p[1].as_str().unwrap_or("").to_string())).collect()).unwrap_or_default();
    if build_valid(&spec).is_err() {
        return vec![];
    }
    match catch(|| check(&spec, &shapes, cm)) {
        Ok(b) => b.into_iter().map(|(c, w)| Violation { cause: c, order: (0, 0), what: w, case: case.clone() }).collect(),
        Err(p) => vec![Violation { cause: p.key(), order: (0, 0), what: p.show(), case: case.clone() }],
    }
}

fn main() {
    let cli = Cli::parse();
    install_silent_hook();
    fix_env();
    let tier = match &cli.mode {
        Mode::Replay(p) => run_replay(PROP, p, &recheck),
        Mode::Explore(t) => *t,
    };
    sup::supervise(PROP, &cli);
    let journal: &'static Journal = Box::leak(Box::new(if std::env::var_os("CLAPMC_CHILD").is_some() { Journal::create(PROP) } else { Journal::dummy() }));
    let single = sup::single_case(&cli);
    if single.is_none() {
        journal.start_watchdog("C12");
    }
    let rep = Report::new(PROP, tier, cli.seed);
    let cs = cfgs(tier.pick(2, 3));
    let widths: Vec<usize> = match tier {
        Tier::Quick => vec![0, 1, 5, 10, 20, 40, 79, 80, 100, 200],
        Tier::Thorough => (0..=200).collect(),
    };
    // two-argument configurations get a reduced width set in the quick tier
    let widths2: Vec<usize> = match tier {
        Tier::Quick => vec![0, 5, 30, 80],
        Tier::Thorough => vec![0, 1, 2, 3, 5, 8, 10, 15, 20, 30, 40, 60, 79, 80, 81, 100, 120, 200],
    };
    rep.rule("block = one help-shape configuration (<= 2 arguments from 15 shapes x 14 modifiers, x 11 command modifiers; one visible + one hidden + one more visible subcommand always present); case = (width, entry point) over 7 entry points (render_help, render_long_help, render_usage, -h, --help, viscmd -h, help viscmd); each render is checked for panics, padding, listing of visible items in their section and absence of hidden markers. non-trivial = renders on which the listing/hidden clauses were evaluated (default template, not usage-only)");
    rep.set("bounds", json!({"configurations": cs.len(), "shapes": SHAPES, "arg_modifiers": MODS, "command_modifiers": CMODS, "widths_one_arg": widths, "widths_two_args": widths2, "entry_points": ["render_help", "render_long_help", "render_usage", "-h", "--help", "viscmd -h", "help viscmd"]}));
    rep.assume("listing clauses apply to the default template only; custom templates are checked for panics and padding; required hidden arguments may appear in usage and are not checked");

    if let Some((b, w)) = single {
        let c = &cs[b as usize];
        let Some(spec) = spec_of(c, w as usize) else { std::process::exit(0) };
        sup::describe_case(PROP, &json!({"spec": spec.to_json(), "cmod": c.cm, "shapes": c.shapes, "width": w}));
        if build_valid(&spec).is_err() {
            std::process::exit(0);
        }
        let bad = check(&spec, &c.shapes, c.cm);
        std::process::exit(if bad.is_empty() { 0 } else { 1 });
    }

    let valid: Option<std::collections::HashSet<usize>> = if cfg!(debug_assertions) {
        None
    } else {
        Some(mccore::report::load_valid(PROP).unwrap_or_else(|| rep.machinery("release pass needs the debug pass's .work/C12.valid.json (run `./check C12 thorough`)")))
    };
    let accepted_list: std::sync::Mutex<Vec<usize>> = Default::default();
    let rejected = std::sync::atomic::AtomicU64::new(0);
    par_blocks(cs.len(), |bi, tid| {
        let c = &cs[bi];
        let ws = if c.shapes.len() >= 2 { &widths2 } else { &widths };
        let mut h = Hist::new();
        for &w in ws.iter() {
            let Some(spec) = spec_of(c, w) else { continue };
            journal.begin(tid, bi as u64, w as u64);
            let ok = match &valid {
                Some(v) => v.contains(&bi),
                None => build_valid(&spec).is_ok(),
            };
            if !ok {
                rejected.fetch_add(1, std::sync::atomic::Ordering::Relaxed);
                journal.end(tid);
                break;
            }
            if w == ws[0] {
                accepted_list.lock().unwrap().push(bi);
            }
            h.evaluations += 7;
            h.states += 7;
            h.transitions += 7;
            h.validated += 7;
            if spec.template.is_none() {
                h.nontrivial += 4;
            }
            let order = ((c.shapes.len() as u64) << 40 | bi as u64, w as u64);
            let mk = || json!({"spec": spec.to_json(), "cmod": c.cm, "shapes": c.shapes, "width": w});
            match catch(|| check(&spec, &c.shapes, c.cm)) {
                Ok(bad) => {
                    if bad.is_empty() {
                        h.bump("rendered-ok");
                    }
                    for (cause, what) in bad {
                        rep.violation(Violation { cause: cause.clone(), order, what: format!("args {:?} cmd-modifier {} width {}: {} ({})", c.shapes, c.cm, w, cause, what), case: mk() });
                    }
                }
                Err(p) => {
                    h.bump("PANIC");
                    rep.violation(Violation { cause: p.key(), order, what: format!("args {:?} cmd-modifier {} width {}: {}", c.shapes, c.cm, w, p.show()), case: mk() });
                }
            }
            journal.end(tid);
        }
        if bi == 1 || bi == cs.len() / 2 || bi == cs.len() - 1 {
            rep.sample(json!({"args": c.shapes, "cmd_modifier": c.cm, "widths": ws.len()}));
        }
        rep.merge(&h);
    });
    if cfg!(debug_assertions) {
        let mut v = accepted_list.into_inner().unwrap();
        v.sort();
        mccore::report::save_valid(PROP, &v);
    }
    rep.set("configurations_rejected_by_validity_gate", json!(rejected.load(std::sync::atomic::Ordering::Relaxed)));
    rep.finish(&recheck);
}
