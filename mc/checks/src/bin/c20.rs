//! C20 — text wrapping keeps every word, in order, within the requested width.
//!
//! Access without hooks: `help_template("<{author}>")` renders exactly
//! `"<" + textwrap::wrap(author, term_width) + ">\n"` and `"<{about}>"` exactly `StyledStr::wrap`
//! of the about text (the sentinels defeat write_help's whole-help trimming).
//!
//! Space: every string of <= K atoms over {a, bb, space, newline, 日, e+U+0301, ESC[1m, ESC[0m}
//! x width 0 (unlimited), 1..=8, plain and styled.

use clap::Command;
use mccore::report::run_replay;
use mccore::*;
use serde_json::{json, Value};

const PROP: &str = "C20";
const ATOMS: [&str; 8] = ["a", "bb", " ", "\n", "日", "e\u{301}", "\x1b[1m", "\x1b[0m"];

fn render(mode: &str, text: &str, width: usize) -> String {
    let mut c = Command::new("prog").term_width(width);
    #[cfg(not(feature = "nocolor"))]
    {
        c = c.color(clap::ColorChoice::Always);
    }
    c = if mode == "plain" {
        c.author(text.to_string()).help_template("<{author}>")
    } else {
        c.about(text.to_string()).help_template("<{about}>")
    };
    #[cfg(not(feature = "nocolor"))]
    {
        c.render_help().ansi().to_string()
    }
    // without the `color` feature the rendered text is the raw text, user escapes included
    #[cfg(feature = "nocolor")]
    {
        c.render_help().to_string()
    }
}

/// the environment variables the renderer looks at (what mcmodel::fix_env does for this check)
fn fix_env_local() {
    for k in ["COLUMNS", "LINES", "NO_COLOR", "CLICOLOR", "CLICOLOR_FORCE", "TERM"] {
        std::env::remove_var(k);
    }
}

/// Independent display width for this alphabet: wide = 2, combining mark = 0, escape sequence = 0.
fn width_of(s: &str) -> usize {
    let mut w = 0;
    let mut it = s.chars().peekable();
    while let Some(c) = it.next() {
        if c == '\x1b' {
            // ESC [ ... m
            for d in it.by_ref() {
                if d == 'm' {
                    break;
                }
            }
            continue;
        }
        // without the `unicode` feature every char is documented to count one column
        w += match c {
            '日' if cfg!(not(feature = "nocolor")) => 2,
            '\u{301}' if cfg!(not(feature = "nocolor")) => 0,
            _ => 1,
        };
    }
    w
}

#[derive(Clone, Copy, PartialEq, Debug)]
enum Tok {
    Ch(char),
    Esc(usize), // which escape (index into the string, for identity)
}

/// Split into characters, with each escape sequence as one token.
fn toks(s: &str) -> Vec<(Tok, String)> {
    let mut out = vec![];
    let cs: Vec<char> = s.chars().collect();
    let mut i = 0;
    while i < cs.len() {
        if cs[i] == '\x1b' {
            let st = i;
            while i < cs.len() && cs[i] != 'm' {
                i += 1;
            }
            i = (i + 1).min(cs.len());
            out.push((Tok::Esc(st), cs[st..i].iter().collect()));
        } else {
            out.push((Tok::Ch(cs[i]), cs[i].to_string()));
            i += 1;
        }
    }
    out
}

/// The alignment relation R8. `styled`: indent candidates are chunk-local (see DESIGN §4 C20).
/// Returns Err(cause, detail) on the first deviation.
fn align(input: &str, output: &str, styled: bool) -> Result<u32, (String, String)> {
    let a = toks(input);
    let b = toks(output);
    let is_sp = |t: &(Tok, String)| t.0 == Tok::Ch(' ');
    let is_nl = |t: &(Tok, String)| t.0 == Tok::Ch('\n');
    // styled text: the documented final trim_end removes trailing whitespace of the whole text
    let mut a_end = a.len();
    if styled {
        while a_end > 0 && matches!(a[a_end - 1].0, Tok::Ch(' ') | Tok::Ch('\n')) {
            a_end -= 1;
        }
    }
    // indent candidates for styled text: at every visible line start seen so far, the run of
    // spaces that begins the first text chunk of that line (stops at an escape or a non-space)
    let mut candidates: Vec<usize> = vec![];
    let line_indent = |from: usize| -> usize {
        // skip escapes, then count spaces
        let mut k = from;
        while k < a.len() && matches!(a[k].0, Tok::Esc(_)) {
            k += 1;
        }
        let st = k;
        while k < a.len() && is_sp(&a[k]) {
            k += 1;
        }
        k - st
    };
    // the full visible indent (spaces across escape sequences) is an equally valid choice
    let visible_indent = |from: usize| -> usize {
        let mut k = from;
        let mut n = 0;
        while k < a.len() && (matches!(a[k].0, Tok::Esc(_)) || is_sp(&a[k])) {
            if is_sp(&a[k]) {
                n += 1;
            }
            k += 1;
        }
        n
    };
    // the spaces the line literally starts with, before any escape sequence (what a wrapper does
    // that sees the raw text: clap without the `color` feature)
    let raw_indent = |from: usize| -> usize {
        let mut k = from;
        while k < a.len() && is_sp(&a[k]) {
            k += 1;
        }
        k - from
    };
    candidates.push(line_indent(0));
    candidates.push(visible_indent(0));
    candidates.push(raw_indent(0));
    let mut cur_line_start = 0usize;
    let (mut i, mut j) = (0usize, 0usize);
    let mut breaks = 0u32;
    while i < a_end {
        if j < b.len() && a[i].1 == b[j].1 {
            if is_nl(&a[i]) {
                cur_line_start = i + 1;
                candidates.clear();
                candidates.push(line_indent(i + 1));
                candidates.push(visible_indent(i + 1));
                candidates.push(raw_indent(i + 1));
            }
            i += 1;
            j += 1;
            continue;
        }
        if is_sp(&a[i]) && j < b.len() && is_nl(&b[j]) {
            // a break: must replace the whole raw run of spaces starting here
            if i > 0 && is_sp(&a[i - 1]) {
                return Err((
                    "line break replaces only part of a run of spaces".into(),
                    format!("at input token {}", i),
                ));
            }
            let mut r = i;
            while r < a.len() && is_sp(&a[r]) {
                r += 1;
            }
            j += 1;
            // indent re-emitted
            let mut k = j;
            while k < b.len() && is_sp(&b[k]) {
                k += 1;
            }
            let emitted = k - j;
            // how many of those are the indent, how many belong to following input? the input at r
            // is not a space (run was maximal), so all emitted spaces are indent.
            if !styled {
                let want = {
                    let mut k2 = cur_line_start;
                    while k2 < a.len() && is_sp(&a[k2]) {
                        k2 += 1;
                    }
                    k2 - cur_line_start
                };
                if emitted != want {
                    return Err((
                        "line break does not re-emit the line's leading indent".into(),
                        format!("emitted {} spaces, line indent is {}", emitted, want),
                    ));
                }
            } else if !candidates.contains(&emitted) {
                return Err((
                    "styled line break does not re-emit the line's leading indent".into(),
                    format!("emitted {} spaces, candidates {:?}", emitted, candidates),
                ));
            }
            j = k;
            i = r;
            breaks += 1;
            continue;
        }
        let what = if j < b.len() {
            format!("input token {:?} vs output token {:?} (positions {}, {})", a[i].1, b[j].1, i, j)
        } else {
            format!("output ends early at input token {:?} (position {})", a[i].1, i)
        };
        let cause = if j < b.len() && is_nl(&b[j]) {
            "a line break was inserted where the input has no space"
        } else if matches!(a[i].0, Tok::Esc(_)) {
            "an escape sequence was altered or dropped"
        } else if is_nl(&a[i]) {
            "an original line break was dropped or moved"
        } else if is_sp(&a[i]) {
            "spaces were dropped without a line break"
        } else {
            "a non-space character was dropped, altered or reordered"
        };
        return Err((cause.into(), what));
    }
    // leftover output
    let mut rest = &b[j..];
    if styled {
        while let Some(l) = rest.last() {
            if matches!(l.0, Tok::Ch(' ') | Tok::Ch('\n')) {
                rest = &rest[..rest.len() - 1];
            } else {
                break;
            }
        }
    }
    if !rest.is_empty() {
        return Err((
            "output has extra content after the input is exhausted".into(),
            format!("{:?}", rest.iter().map(|t| t.1.clone()).collect::<String>()),
        ));
    }
    Ok(breaks)
}

/// Plain wrapper only: a break may be inserted only where the next word does not fit — the
/// documented rule is "break when the line so far (trailing spaces included) plus the next word
/// exceeds the width", with escape sequences counting zero columns. Returns the first break that
/// was not necessary.
fn unnecessary_break(text: &str, inner: &str, width: usize) -> Option<String> {
    let src: Vec<&str> = text.split('\n').collect();
    // source lines that end in spaces may get a break inside that trailing run, which cannot be
    // told from the next (empty) source line: only lines without trailing spaces are judged
    if src.iter().any(|l| l.ends_with(' ')) {
        return None;
    }
    let out: Vec<&str> = inner.split('\n').collect();
    let mut oi = 0usize;
    for s in src {
        let indent_len = if s.trim_matches(' ').is_empty() { 0 } else { s.len() - s.trim_start_matches(' ').len() };
        let indent = &s[..indent_len];
        let mut pos = 0usize;
        let mut first = true;
        loop {
            let p = *out.get(oi)?;
            let content = if first { p } else { p.strip_prefix(indent)? };
            if !s[pos..].starts_with(content) {
                return None; // structure not as expected: the alignment relation judges that
            }
            pos += content.len();
            oi += 1;
            first = false;
            let rest = &s[pos..];
            if rest.trim_matches(' ').is_empty() {
                break; // source line exhausted (trailing spaces may have been trimmed)
            }
            // a break was inserted here: the run of spaces it replaced, and the word that follows
            let run = rest.len() - rest.trim_start_matches(' ').len();
            if run == 0 {
                return None;
            }
            pos += run;
            let next_word = s[pos..].split(' ').next().unwrap_or("");
            if width_of(p) + run + width_of(next_word) <= width {
                return Some(format!("line {:?} (width {}) + {} space(s) + next word {:?} (width {}) fits into {}", p, width_of(p), run, next_word, width_of(next_word), width));
            }
        }
    }
    None
}

fn check(mode: &str, text: &str, width: usize) -> Result<(u32, bool), (String, String)> {
    let out = render(mode, text, width);
    let inner = out
        .strip_prefix('<')
        .and_then(|s| s.strip_suffix(">\n"))
        .ok_or_else(|| ("render is not <...> (sentinel lost)".to_string(), format!("{:?}", out)))?;
    let styled = mode != "plain";
    let breaks = align(text, inner, styled).map_err(|(c, d)| {
        (format!("{}: {}", mode, c), format!("{} — output {:?}", d, inner))
    })?;
    let mut had_wide_single = false;
    // without the `wrap_help` feature clap does not wrap at all: the width bound is then not
    // clap's to keep (content preservation still is)
    // text without escape sequences is plain text whichever wrapper it goes through
    let plain_text = !styled || !text.contains('\x1b');
    if plain_text && width > 0 && cfg!(feature = "full") {
        for line in inner.split('\n') {
            let t = line.trim_end_matches(' ');
            if width_of(t) > width {
                let body = t.trim_start_matches(' ');
                if body.contains(' ') {
                    return Err((
                        if styled { "escape-free text through the styled wrapper: a line holding several words is wider than the width".into() } else { "plain: a line holding several words is wider than the width".into() },
                        format!("line {:?} has width {} > {} — output {:?}", t, width_of(t), width, inner),
                    ));
                }
                had_wide_single = true;
            }
        }
    }
    if !styled && width > 0 && breaks > 0 && cfg!(feature = "full") {
        if let Some(d) = unnecessary_break(text, inner, width) {
            return Err(("plain: a line break was inserted although the next word fits (zero-width sequences counted as columns?)".into(), format!("{} — output {:?}", d, inner)));
        }
    }
    if width == 0 && breaks > 0 {
        return Err((format!("{}: line break inserted at unlimited width", mode), format!("output {:?}", inner)));
    }
    Ok((breaks, had_wide_single))
}

/// The lines the renderer appends to an argument's help in long help (`[default: ..]`,
/// `[aliases: ..]`, `[possible values: ..]`) are wrapped like the help itself: whatever the help
/// text is (one line, two lines, none), no line holding several words is wider than the width.
fn check_spec_lines(kind: usize, help: usize, n: usize, width: usize) -> Result<(), (String, String)> {
    let words: Vec<String> = (0..n).map(|i| format!("w{}x", i)).collect();
    let mut a = clap::Arg::new("opt").long("opt").action(clap::ArgAction::Append).num_args(1..);
    a = match help {
        0 => a,
        1 => a.help("short help"),
        _ => a.help("first line\nsecond line of the help"),
    };
    a = match kind {
        0 => a.default_values(words.clone()),
        1 => a.visible_aliases(words.clone()),
        _ => a.value_parser(words.clone()),
    };
    let mut c = Command::new("prog").term_width(width).arg(a);
    let out = c.render_long_help().to_string();
    for line in out.lines() {
        let t = line.trim_end_matches(' ');
        if width_of(t) > width && t.trim_start_matches(' ').contains(' ') {
            return Err(("long help: a line holding several words is wider than the width".into(), format!("kind {} help {} n {} width {}: line {:?} has width {} — output {:?}", ["default_values", "visible_aliases", "possible values"][kind], help, n, width, t, width_of(t), out)));
        }
    }
    Ok(())
}

fn recheck(case: &Value) -> Vec<Violation> {
    if case["part"] == "spec-lines" {
        let g = |k: &str| case[k].as_u64().unwrap_or(0) as usize;
        return match catch(|| check_spec_lines(g("kind"), g("help"), g("n"), g("width"))) {
            Ok(Ok(())) => vec![],
            Ok(Err((c, w))) => vec![Violation { cause: c, order: (0, 0), what: w, case: case.clone() }],
            Err(p) => vec![Violation { cause: p.key(), order: (0, 0), what: p.show(), case: case.clone() }],
        };
    }
    let mode = case["mode"].as_str().unwrap_or("plain").to_string();
    let text = String::from_utf8(unhex(case["text_hex"].as_str().unwrap_or(""))).unwrap_or_default();
    let width = case["width"].as_u64().unwrap_or(0) as usize;
    match catch(|| check(&mode, &text, width)) {
        Ok(Ok(_)) => vec![],
        Ok(Err((c, w))) => vec![Violation { cause: c, order: (0, 0), what: w, case: case.clone() }],
        Err(p) => vec![Violation { cause: p.key(), order: (0, 0), what: p.show(), case: case.clone() }],
    }
}

fn main() {
    let cli = Cli::parse();
    install_silent_hook();
    fix_env_local();
    let tier = match &cli.mode {
        Mode::Replay(p) => run_replay(PROP, p, &recheck),
        Mode::Explore(t) => *t,
    };
    let rep = Report::new(PROP, tier, cli.seed);
    let k = tier.pick(6usize, 7usize);
    let widths: Vec<usize> = (0..=8).collect();
    rep.rule("every string of <= K atoms over {a, bb, space, newline, 日(width 2), e+U+0301(zero-width mark), ESC[1m, ESC[0m} x width in {0=unlimited,1..8} x {plain via {author}, styled via {about}}; rendered through Command::render_help with sentinel template and compared with the alignment relation (only whole runs of spaces become a break + the line's indent) and, for plain text, the width bound; non-trivial = cases in which at least one line break was inserted");
    rep.set("bounds", json!({"atoms": ATOMS.len(), "max_atoms": k, "widths": widths}));
    rep.assume(if cfg!(feature = "nocolor") { "this pass: clap built with wrap_help and WITHOUT color/unicode (escape sequences reach the wrapper unstripped; every char counts 1 column, so the width bound is only judged for strings without wide or combining characters)" } else if cfg!(feature = "full") { "this pass: clap built with wrap_help + unicode + color; characters outside the 8-atom alphabet, longer strings and widths > 8 are not explored" } else { "this pass: clap built with its DEFAULT features (no wrap_help, no unicode): text must come through unchanged; the width bound does not apply" });
    rep.assume("styled text: the indent re-emitted after a break is the current line's leading run of spaces, either up to the first escape sequence (what the chunk-wise wrapper does) or across escape sequences (equally valid); trailing whitespace of the whole text is not content (documented trim_end)");

    // self-test: sentinel access works and is deterministic
    {
        let a = render("plain", "a a a", 3);
        let b = render("plain", "a a a", 3);
        // only the access mechanism and determinism are machinery; what the wrapper does with the
        // text is the property's business
        if a != b || !a.starts_with('<') || !a.ends_with(">\n") || !a.contains('a') {
            rep.machinery(&format!("self-test: sentinel render gave {:?} / {:?}", a, b));
        }
    }

    // blocks: (first two atoms) prefix classes to spread; enumerate all sequences
    let mut seqs: Vec<Vec<usize>> = vec![];
    for_each_seq(ATOMS.len(), 2, |s| seqs.push(s.to_vec()));
    // seqs of len 0,1,2 are complete cases themselves; len-2 ones are also prefixes of longer ones
    let n_blocks = seqs.len();
    par_blocks(n_blocks, |bi, _| {
        let pre = &seqs[bi];
        let mut h = Hist::new();
        let mut run_case = |seq: &[usize], ord: u64| {
            let text: String = seq.iter().map(|i| ATOMS[*i]).collect();
            for &w in &widths {
                for mode in ["plain", "styled"] {
                    h.evaluations += 1;
                    h.states += 1;
                    h.transitions += 1;
                    h.validated += 1;
                    let case = json!({"mode": mode, "text_hex": hex(text.as_bytes()), "text_shown": format!("{:?}", text), "width": w});
                    match catch(|| check(mode, &text, w)) {
                        Ok(Ok((breaks, wide))) => {
                            if breaks > 0 {
                                h.nontrivial += 1;
                                h.bump(&format!("{}:wrapped", mode));
                            } else {
                                h.bump(&format!("{}:unchanged", mode));
                            }
                            if wide {
                                h.bump("plain:single-word-wider-than-width");
                            }
                        }
                        Ok(Err((c, d))) => rep.violation(Violation {
                            cause: c.clone(),
                            order: (seq.len() as u64, ord * 16 + w as u64),
                            what: format!("{} text {:?} width {}: {} ({})", mode, text, w, c, d),
                            case,
                        }),
                        Err(p) => rep.violation(Violation {
                            cause: format!("{}: {}", mode, p.key()),
                            order: (seq.len() as u64, ord * 16 + w as u64),
                            what: format!("{} text {:?} width {}: {}", mode, text, w, p.show()),
                            case,
                        }),
                    }
                }
            }
        };
        let mut ord = bi as u64;
        if pre.len() < 2 {
            run_case(pre, ord);
        } else {
            let mut seq = pre.clone();
            let rest_max = k - 2;
            for_each_seq(ATOMS.len(), rest_max, |s| {
                seq.truncate(2);
                seq.extend_from_slice(s);
                ord += 1;
                run_case(&seq, ord);
            });
        }
        if bi == n_blocks - 1 {
            rep.sample(json!({"mode": "styled", "text": "\u{1b}[0m\u{1b}[0m…", "note": "last block: all strings starting with ESC[0m ESC[0m"}));
        }
        rep.merge(&h);
    });
    // lines appended to an argument's help in long help
    if cfg!(feature = "full") {
        let mut h = Hist::new();
        for kind in 0..3usize {
            for help in 0..3usize {
                for n in 1..=10usize {
                    for width in 30..=60usize {
                        h.evaluations += 1;
                        h.states += 1;
                        h.transitions += 1;
                        h.validated += 1;
                        let mk = || json!({"part": "spec-lines", "kind": kind, "help": help, "n": n, "width": width});
                        match catch(|| check_spec_lines(kind, help, n, width)) {
                            Ok(Ok(())) => {}
                            Ok(Err((c, w))) => rep.violation(Violation { cause: c, order: (1 << 40, (n * 100 + width) as u64), what: w, case: mk() }),
                            Err(p) => rep.violation(Violation { cause: p.key(), order: (1 << 40, 0), what: p.show(), case: mk() }),
                        }
                    }
                }
            }
        }
        rep.merge(&h);
    }
    rep.sample(json!({"mode": "plain", "text": "a a a", "width": 3, "output": "a a\na"}));
    rep.sample(json!({"mode": "styled", "text": "a \u{1b}[1ma\u{1b}[0m a", "width": 3, "output": render("styled", "a \x1b[1ma\x1b[0m a", 3)}));
    rep.finish(&recheck);
}
