//! C06 — command line beats environment beats default, and sources are reported honestly.
//!
//! Part A (lattice): one argument `o` in 5 kinds x {default} x {default_value_if variants} x
//! {default_missing} x {env none/set/empty/unset} x every sequence of <= 3 distinct tokens over the
//! spellings of `o` and of a second option `other`; expected origin/value/source from the source
//! lattice R3. Part B (presence): the same argument, whose only origin is a default or the
//! environment, combined with one relation (conflict, exclusive, requires, required group,
//! overrides, arg_required_else_help) — defaults must never act as presence, the environment must.
//! Part C: error-ignoring recovery keeps the lattice. Part D: global argument + subcommand.

use mccore::report::run_replay;
use mccore::*;
use mcmodel::*;
use serde_json::{json, Value};

const PROP: &str = "C06";

#[derive(Clone, Copy, Debug, PartialEq, Eq)]
enum Kind {
    Set1,
    Set01,
    Flag,
    Count,
    Append,
}
const KINDS: [Kind; 5] = [Kind::Set1, Kind::Set01, Kind::Flag, Kind::Count, Kind::Append];

#[derive(Clone, Copy, Debug, PartialEq, Eq)]
enum DIf {
    None,
    PresentThen,
    EqXThen,
    PresentUnset,
    EqXUnsetThenPresent,
}
const DIFS: [DIf; 5] = [DIf::None, DIf::PresentThen, DIf::EqXThen, DIf::PresentUnset, DIf::EqXUnsetThenPresent];

#[derive(Clone, Copy, Debug, PartialEq, Eq)]
enum Env {
    None,
    Set,
    Empty,
    Unset,
    /// the variable holds bytes that are not UTF-8 (the argument gets an OsString parser)
    NonUtf8,
}
const ENVS: [Env; 5] = [Env::None, Env::Set, Env::Empty, Env::Unset, Env::NonUtf8];

#[derive(Clone, Copy, Debug, PartialEq, Eq)]
enum Rel {
    None,
    OConflictsOther,
    OtherConflictsO,
    OExclusive,
    OtherExclusive,
    OtherRequiresO,
    ORequiresZ,
    RequiredGroupO,
    OOverridesOther,
    OtherOverridesO,
    ArgRequiredElseHelp,
    IgnoreErrors,
    GlobalSub,
    /// `z.required_if_eq_any(o = D | DI | DM)` with `o.ignore_case(true)`: the upper-case spellings
    /// of every default `o` can have — a default must not make `z` required
    ZRequiredIfOEqualsDefaultIgnoringCase,
    /// `other` is an `Append` option and may be given several times: a conditional default that
    /// tests `other == x` fires when ANY of its values is x
    OtherAppend,
    /// `other` (declared after `o`) has an environment variable holding `x`: an argument supplied by
    /// the environment is as present as one on the command line when `o`'s conditional defaults
    /// are decided, whatever the declaration order
    OtherFromEnv,
    /// `o` and `other` are members of one `multiple` group: a group one of whose members was typed
    /// reports the command line as its source, whatever else reached it afterwards
    GroupOWithOther,
}
const RELS: [Rel; 17] = [
    Rel::None,
    Rel::OConflictsOther,
    Rel::OtherConflictsO,
    Rel::OExclusive,
    Rel::OtherExclusive,
    Rel::OtherRequiresO,
    Rel::ORequiresZ,
    Rel::RequiredGroupO,
    Rel::OOverridesOther,
    Rel::OtherOverridesO,
    Rel::ArgRequiredElseHelp,
    Rel::IgnoreErrors,
    Rel::GlobalSub,
    Rel::ZRequiredIfOEqualsDefaultIgnoringCase,
    Rel::OtherAppend,
    Rel::OtherFromEnv,
    Rel::GroupOWithOther,
];

#[derive(Clone, Debug)]
struct Cfg {
    kind: Kind,
    default: bool,
    dif: DIf,
    dm: bool,
    env: Env,
    rel: Rel,
}

impl Cfg {
    fn name(&self) -> String {
        format!("{:?} default={} dif={:?} dm={} env={:?} rel={:?}", self.kind, self.default, self.dif, self.dm, self.env, self.rel)
    }
    fn env_value(&self) -> Option<&'static str> {
        match (self.env, self.kind) {
            (Env::Set, Kind::Flag) => Some("true"),
            (Env::Set, Kind::Count) => Some("3"),
            (Env::Set, _) => Some("envv"),
            (Env::Empty, _) => Some(""),
            // as shown by the lossy rendering the observations are compared in
            (Env::NonUtf8, _) => Some("w\u{fffd}"),
            _ => None,
        }
    }
    fn applicable(&self) -> bool {
        if self.dm && self.kind != Kind::Set01 {
            return false;
        }
        if self.env == Env::NonUtf8 && (matches!(self.kind, Kind::Flag | Kind::Count) || self.rel == Rel::ZRequiredIfOEqualsDefaultIgnoringCase) {
            return false;
        }
        if self.env == Env::Empty && matches!(self.kind, Kind::Flag | Kind::Count) {
            return false; // "" is outside the flag parsers' language
        }
        if matches!(self.kind, Kind::Flag | Kind::Count) && (self.default || self.dif != DIf::None) {
            return false; // explicit defaults on flags are the documentation's own special case
        }
        if self.rel == Rel::ZRequiredIfOEqualsDefaultIgnoringCase && matches!(self.kind, Kind::Flag | Kind::Count) {
            return false;
        }
        true
    }
    fn spec(&self) -> CmdSpec {
        let mut c = CmdSpec::new("prog");
        let mut o = match self.kind {
            Kind::Flag | Kind::Count => ArgSpec::flag("o", None, Some("o")),
            _ => ArgSpec::opt("o", None, Some("o")),
        };
        o.action = Some(match self.kind {
            Kind::Set1 | Kind::Set01 => Act::Set,
            Kind::Flag => Act::SetTrue,
            Kind::Count => Act::Count,
            Kind::Append => Act::Append,
        });
        if self.kind == Kind::Set01 {
            o.num_args = Some((0, Some(1)));
        }
        if self.default {
            o.default = vec!["d".into()];
        }
        match self.dif {
            DIf::None => {}
            DIf::PresentThen => o.default_ifs.push(DefaultIf { other: "other".into(), equals: None, value: Some("di".into()) }),
            DIf::EqXThen => o.default_ifs.push(DefaultIf { other: "other".into(), equals: Some("x".into()), value: Some("di".into()) }),
            DIf::PresentUnset => o.default_ifs.push(DefaultIf { other: "other".into(), equals: None, value: None }),
            DIf::EqXUnsetThenPresent => {
                o.default_ifs.push(DefaultIf { other: "other".into(), equals: Some("x".into()), value: None });
                o.default_ifs.push(DefaultIf { other: "other".into(), equals: None, value: Some("di2".into()) });
            }
        }
        if self.dm {
            o.default_missing = vec!["dm".into()];
        }
        o.env = match (self.env, self.kind) {
            (Env::None, _) => None,
            (Env::Set, Kind::Flag) => Some("CLAPMC_TRUE".into()),
            (Env::Set, Kind::Count) => Some("CLAPMC_COUNT".into()),
            (Env::Set, _) => Some("CLAPMC_SET".into()),
            (Env::Empty, _) => Some("CLAPMC_EMPTY".into()),
            (Env::Unset, _) => Some("CLAPMC_UNSET".into()),
            (Env::NonUtf8, _) => Some("CLAPMC_NONUTF8".into()),
        };
        if self.env == Env::NonUtf8 {
            o.parser = Vp::Os;
        }
        let mut other = ArgSpec::opt("other", None, Some("other"));
        let mut z = ArgSpec::flag("z", None, Some("z"));
        z.action = Some(Act::SetTrue);
        match self.rel {
            Rel::OConflictsOther => o.conflicts.push("other".into()),
            Rel::OtherConflictsO => other.conflicts.push("o".into()),
            Rel::OExclusive => o.exclusive = true,
            Rel::OtherExclusive => other.exclusive = true,
            Rel::OtherRequiresO => other.requires.push("o".into()),
            Rel::ORequiresZ => o.requires.push("z".into()),
            Rel::RequiredGroupO => c.groups.push(GroupSpec { id: "g".into(), args: vec!["o".into()], required: true, ..Default::default() }),
            Rel::OOverridesOther => o.overrides.push("other".into()),
            Rel::OtherOverridesO => other.overrides.push("o".into()),
            Rel::ArgRequiredElseHelp => c.set(Setting::ArgRequiredElseHelp),
            Rel::IgnoreErrors => c.set(Setting::IgnoreErrors),
            Rel::GlobalSub => {
                o.global = true;
                let mut s = CmdSpec::new("sub");
                s.args.push(ArgSpec::flag("x", None, Some("x")));
                c.subs.push(s);
            }
            Rel::ZRequiredIfOEqualsDefaultIgnoringCase => {
                o.ignore_case = true;
                z.required_if_eq_any = vec![("o".into(), "D".into()), ("o".into(), "DI".into()), ("o".into(), "DM".into())];
            }
            Rel::OtherAppend => other.action = Some(Act::Append),
            Rel::OtherFromEnv => other.env = Some("CLAPMC_X".into()),
            Rel::GroupOWithOther => c.groups.push(GroupSpec { id: "g".into(), args: vec!["o".into(), "other".into()], multiple: true, ..Default::default() }),
            Rel::None => {}
        }
        c.args.push(o);
        c.args.push(other);
        c.args.push(z);
        c
    }
}

#[derive(Clone, Copy, Debug, PartialEq, Eq)]
enum Tok {
    OEq,    // --o=v   (flags: --o)
    OSp,    // --o w
    OBare,  // --o (no value; Set01 only)
    OtherX, // --other=x
    OtherY, // --other=y
    Z,
    Sub,
    Bogus,
}

fn toks_for(c: &Cfg) -> Vec<Tok> {
    let mut t = vec![Tok::OEq];
    if !matches!(c.kind, Kind::Flag | Kind::Count) {
        t.push(Tok::OSp);
    }
    if c.kind == Kind::Set01 {
        t.push(Tok::OBare);
    }
    t.push(Tok::OtherX);
    t.push(Tok::OtherY);
    // (the exclusive and conflict relations also get a bystander `--z`: some checks only look
    // closer once two arguments were supplied)
    if matches!(c.rel, Rel::ORequiresZ | Rel::OExclusive | Rel::OtherExclusive | Rel::OConflictsOther | Rel::OtherConflictsO | Rel::ZRequiredIfOEqualsDefaultIgnoringCase) {
        t.push(Tok::Z);
    }
    if c.rel == Rel::GlobalSub {
        t.push(Tok::Sub);
    }
    t
}

fn spell(c: &Cfg, seq: &[Tok]) -> Vec<Vec<u8>> {
    let mut out: Vec<Vec<u8>> = vec![];
    let flag = matches!(c.kind, Kind::Flag | Kind::Count);
    for t in seq {
        match t {
            Tok::OEq => out.push(if flag { b"--o".to_vec() } else { b"--o=v".to_vec() }),
            Tok::OSp => {
                out.push(b"--o".to_vec());
                out.push(b"w".to_vec());
            }
            Tok::OBare => out.push(b"--o".to_vec()),
            Tok::OtherX => out.push(b"--other=x".to_vec()),
            Tok::OtherY => out.push(b"--other=y".to_vec()),
            Tok::Z => out.push(b"--z".to_vec()),
            Tok::Sub => out.push(b"sub".to_vec()),
            Tok::Bogus => out.push(b"--bogus".to_vec()),
        }
    }
    out
}

/// R3: expected (source, flat values) of `o`; None = absent. `None` outer = not pinned.
fn r3(c: &Cfg, seq: &[Tok]) -> Option<Option<(Src, Vec<String>)>> {
    // surviving command-line occurrences of o (override relation acts in both directions)
    let mut o_occ: Vec<Vec<String>> = vec![];
    let mut other_val: Option<&str> = None;
    let mut other_has_x = false;
    let mut other_from_env = c.rel == Rel::OtherFromEnv;
    for t in seq {
        match t {
            Tok::OEq | Tok::OSp | Tok::OBare => {
                if matches!(c.rel, Rel::OOverridesOther | Rel::OtherOverridesO) {
                    other_val = None;
                }
                let v: Vec<String> = match (t, c.kind) {
                    (_, Kind::Flag) | (_, Kind::Count) => vec![],
                    (Tok::OEq, _) => vec!["v".into()],
                    (Tok::OSp, _) => vec!["w".into()],
                    _ => {
                        if c.dm {
                            vec!["dm".into()]
                        } else {
                            vec![]
                        }
                    }
                };
                match c.kind {
                    Kind::Append | Kind::Count => o_occ.push(v),
                    _ => {
                        if !o_occ.is_empty() {
                            return None; // repeat of a Set arg: conflict or override — C07's business
                        }
                        o_occ = vec![v];
                    }
                }
            }
            Tok::OtherX | Tok::OtherY => {
                if other_val.is_some() && c.rel != Rel::OtherAppend {
                    return None;
                }
                // the command line wins over the environment
                other_from_env = false;
                if *t == Tok::OtherX {
                    other_has_x = true;
                }
                if matches!(c.rel, Rel::OOverridesOther | Rel::OtherOverridesO) {
                    o_occ.clear();
                }
                other_val = Some(if *t == Tok::OtherX { "x" } else { "y" });
            }
            _ => {}
        }
    }
    if other_from_env {
        other_val = Some("x");
    }
    if !o_occ.is_empty() {
        let vals = match c.kind {
            Kind::Flag => vec!["true".to_string()],
            Kind::Count => vec![o_occ.len().to_string()],
            _ => o_occ.concat(),
        };
        return Some(Some((Src::Cli, vals)));
    }
    if let Some(e) = c.env_value() {
        return Some(Some((Src::Env, vec![e.to_string()])));
    }
    // conditional defaults, first match wins; `None` unsets
    let ifs: Vec<(Option<&str>, Option<&str>)> = match c.dif {
        DIf::None => vec![],
        DIf::PresentThen => vec![(None, Some("di"))],
        DIf::EqXThen => vec![(Some("x"), Some("di"))],
        DIf::PresentUnset => vec![(None, None)],
        DIf::EqXUnsetThenPresent => vec![(Some("x"), None), (None, Some("di2"))],
    };
    for (pred, val) in ifs {
        let fires = match pred {
            None => other_val.is_some(),
            Some(x) => {
                if c.rel == Rel::OtherAppend && x == "x" {
                    other_has_x
                } else {
                    other_val == Some(x)
                }
            }
        };
        if fires {
            return Some(val.map(|v| (Src::Default, vec![v.to_string()])));
        }
    }
    if c.default {
        return Some(Some((Src::Default, vec!["d".into()])));
    }
    match c.kind {
        Kind::Flag => Some(Some((Src::Default, vec!["false".into()]))),
        Kind::Count => Some(Some((Src::Default, vec!["0".into()]))),
        _ => Some(None),
    }
}

fn observed(ob: &Obs) -> Option<(Src, Vec<String>)> {
    let a = ob.args.get("o")?;
    if !a.present {
        return None;
    }
    Some((a.source?, a.flat().iter().map(|v| String::from_utf8_lossy(v).to_string()).collect()))
}

fn judge(c: &Cfg, spec: &CmdSpec, cmd: &clap::Command, seq: &[Tok], h: &mut Hist) -> Vec<(String, String)> {
    let argv = spell(c, seq);
    let out = parse(cmd, spec, &argv);
    let mut bad = vec![];
    let mut want = r3(c, seq);
    if c.rel == Rel::GlobalSub {
        // tokens of non-global arguments after `sub` are simply unknown there; and a conditional
        // default evaluated per level against a non-global `other` has no single chain-wide answer
        let after_sub = seq.iter().position(|t| *t == Tok::Sub).map(|p| &seq[p + 1..]).unwrap_or(&[]);
        let is_o = |t: &Tok| matches!(t, Tok::OEq | Tok::OSp | Tok::OBare);
        let before_sub = seq.iter().position(|t| *t == Tok::Sub).map(|p| &seq[..p]).unwrap_or(seq);
        if after_sub.iter().any(|t| matches!(t, Tok::OtherX | Tok::OtherY | Tok::Z))
            || (c.dif != DIf::None && seq.contains(&Tok::Sub))
            // supplied at two levels: which occurrence wins is C09's business
            || (after_sub.iter().any(is_o) && before_sub.iter().any(is_o))
            // `--o` with an optional value takes the following plain token `sub` as that value
            || seq.windows(2).any(|w| w[0] == Tok::OBare && w[1] == Tok::Sub)
        {
            want = None;
        }
    }
    let o_on_cli = seq.iter().any(|t| matches!(t, Tok::OEq | Tok::OSp | Tok::OBare));
    let other_on_cli = seq.iter().any(|t| matches!(t, Tok::OtherX | Tok::OtherY));
    let z_on_cli = seq.contains(&Tok::Z);
    let env_set = c.env_value().is_some();
    let has_default_origin = matches!(want, Some(Some((Src::Default, _))));
    match &out {
        Outcome::Ok(ob) => {
            h.bump("ok");
            if let Some(w) = &want {
                h.nontrivial += 1;
                let got = observed(ob);
                if &got != w {
                    let cause = match (&got, w) {
                        (Some((gs, _)), Some((ws, _))) if gs != ws => format!("value source is {:?} where the origin is {:?}", gs, ws),
                        (Some(_), None) => "a value is reported for an argument with no origin".to_string(),
                        (None, Some((ws, _))) => format!("argument absent although it has a {:?} origin", ws),
                        _ => "value does not come from the winning origin".to_string(),
                    };
                    bad.push((cause, format!("o: got {:?} want {:?}", got, w)));
                }
                if c.rel == Rel::GlobalSub {
                    if let Some((_, sub)) = &ob.sub {
                        let gs = observed(sub);
                        if &gs != w {
                            bad.push(("global argument differs between levels".into(), format!("in sub: {:?}, expected {:?}", gs, w)));
                        }
                    }
                }
            }
            // presence logic, success side
            match c.rel {
                Rel::OtherRequiresO if other_on_cli && !o_on_cli && !env_set => {
                    bad.push(("a default satisfied a `requires`".into(), format!("other requires o; o is {:?}", observed(ob))));
                }
                Rel::RequiredGroupO if !o_on_cli && !env_set => {
                    bad.push(("a default satisfied a required group".into(), format!("o is {:?}", observed(ob))));
                }
                Rel::ORequiresZ if (o_on_cli || env_set) && !z_on_cli => {
                    bad.push(("an explicitly supplied argument did not trigger its requirement".into(), format!("o is {:?}", observed(ob))));
                }
                Rel::OConflictsOther | Rel::OtherConflictsO | Rel::OExclusive | Rel::OtherExclusive if other_on_cli && (o_on_cli || env_set) => {
                    bad.push(("an explicitly supplied argument did not trigger its conflict".into(), format!("o is {:?}", observed(ob))));
                }
                Rel::ArgRequiredElseHelp if seq.is_empty() && !env_set => {
                    bad.push(("defaults counted as 'arguments present' for arg_required_else_help".into(), String::new()));
                }
                _ => {}
            }
            if c.rel == Rel::GroupOWithOther && (o_on_cli || other_on_cli) {
                let gs = ob.args.get("g").and_then(|a| a.source);
                if gs != Some(Src::Cli) {
                    bad.push(("a group with a member given on the command line reports another source".into(), format!("group g: {:?} (o on the line: {}, other on the line: {}, o's environment variable set: {})", gs, o_on_cli, other_on_cli, env_set)));
                }
            }
            // the other argument keeps its command-line value unless a later o on the line overrides it
            if other_on_cli && seq.iter().filter(|t| matches!(t, Tok::OtherX | Tok::OtherY)).count() == 1 && (c.rel != Rel::IgnoreErrors || want.is_some()) {
                let overridden = matches!(c.rel, Rel::OOverridesOther | Rel::OtherOverridesO) && {
                    let last_other = seq.iter().rposition(|t| matches!(t, Tok::OtherX | Tok::OtherY)).unwrap();
                    seq[last_other..].iter().any(|t| matches!(t, Tok::OEq | Tok::OSp | Tok::OBare))
                };
                let oo = ob.args.get("other");
                let present_cli = oo.map(|a| a.source == Some(Src::Cli)).unwrap_or(false);
                if !overridden && !present_cli {
                    bad.push(("an argument given on the command line lost its value to a non-command-line origin".into(), format!("other is {:?}", oo)));
                }
            }
        }
        Outcome::Err(e) => {
            h.bump(&format!("err/{}", e.kind));
            // presence logic, failure side: a default-only argument must not cause these
            let only_default = !o_on_cli && !env_set;
            match c.rel {
                Rel::OConflictsOther | Rel::OtherConflictsO | Rel::OExclusive | Rel::OtherExclusive
                    // (`other` exclusive and given next to `--z` is a genuine conflict)
                    if only_default && e.kind == "ArgumentConflict" && seq.iter().filter(|t| matches!(t, Tok::OtherX | Tok::OtherY)).count() <= 1 && !(c.rel == Rel::OtherExclusive && other_on_cli && z_on_cli) =>
                {
                    bad.push(("a default value triggered a conflict".into(), format!("{} (o default-only: {})", e.rendered.lines().next().unwrap_or(""), has_default_origin)));
                }
                Rel::ZRequiredIfOEqualsDefaultIgnoringCase if only_default && e.kind == "MissingRequiredArgument" => {
                    bad.push(("a default value triggered a conditional requirement (required_if_eq with ignore_case)".into(), e.rendered.lines().next().unwrap_or("").to_string()));
                }
                Rel::ORequiresZ if only_default && e.kind == "MissingRequiredArgument" => {
                    bad.push(("a default value triggered a requirement".into(), e.rendered.lines().next().unwrap_or("").to_string()));
                }
                Rel::ArgRequiredElseHelp if o_on_cli && e.kind == "DisplayHelpOnMissingArgumentOrSubcommand" => {
                    bad.push(("an argument given on the command line (possibly without a value) did not count as present for arg_required_else_help".into(), String::new()));
                }
                Rel::ArgRequiredElseHelp if seq.is_empty() && env_set && e.kind == "DisplayHelpOnMissingArgumentOrSubcommand" => {
                    bad.push(("an environment-supplied argument did not count as present for arg_required_else_help".into(), String::new()));
                }
                Rel::IgnoreErrors => {
                    if e.kind != "DisplayHelp" && e.kind != "DisplayVersion" {
                        bad.push(("error-ignoring parse failed".into(), e.kind.clone()));
                    }
                }
                Rel::None | Rel::GlobalSub => {
                    // nothing on these lines is an error except a repeated Set argument
                    if want.is_some() {
                        bad.push((format!("a line with a pinned origin is rejected ({})", e.kind), e.rendered.lines().next().unwrap_or("").to_string()));
                    }
                }
                _ => {}
            }
        }
    }
    bad
}

fn all_cfgs(tier: Tier) -> Vec<Cfg> {
    let mut v = vec![];
    for kind in KINDS {
        for default in [false, true] {
            for dif in DIFS {
                for dm in [false, true] {
                    for env in ENVS {
                        for rel in RELS {
                            // quick: relations only with the simplest conditional-default settings
                            if tier == Tier::Quick && rel != Rel::None && rel != Rel::OtherAppend && !matches!(dif, DIf::None | DIf::PresentThen) {
                                continue;
                            }
                            let c = Cfg { kind, default, dif, dm, env, rel };
                            if c.applicable() {
                                v.push(c);
                            }
                        }
                    }
                }
            }
        }
    }
    v
}

fn tok_name(t: &Tok) -> String {
    format!("{:?}", t)
}
fn tok_parse(s: &str) -> Option<Tok> {
    [Tok::OEq, Tok::OSp, Tok::OBare, Tok::OtherX, Tok::OtherY, Tok::Z, Tok::Sub, Tok::Bogus].into_iter().find(|t| format!("{:?}", t) == s)
}

fn cfg_json(c: &Cfg) -> Value {
    json!({"kind": format!("{:?}", c.kind), "default": c.default, "dif": format!("{:?}", c.dif), "dm": c.dm, "env": format!("{:?}", c.env), "rel": format!("{:?}", c.rel)})
}
fn cfg_from(v: &Value) -> Option<Cfg> {
    Some(Cfg {
        kind: KINDS.into_iter().find(|k| format!("{:?}", k) == v["kind"].as_str().unwrap_or(""))?,
        default: v["default"].as_bool()?,
        dif: DIFS.into_iter().find(|k| format!("{:?}", k) == v["dif"].as_str().unwrap_or(""))?,
        dm: v["dm"].as_bool()?,
        env: ENVS.into_iter().find(|k| format!("{:?}", k) == v["env"].as_str().unwrap_or(""))?,
        rel: RELS.into_iter().find(|k| format!("{:?}", k) == v["rel"].as_str().unwrap_or(""))?,
    })
}

/// The `arg!` macro takes a value name as an identifier or as a string literal; the two spellings
/// declare the same argument, so origin, values and errors agree on every line.
fn macro_twins() -> Vec<(&'static str, clap::Arg, clap::Arg, &'static str)> {
    vec![
        ("--color [WHEN] + default_missing_value", clap::arg!(--color [WHEN]).default_missing_value("always"), clap::arg!(--color ["WHEN"]).default_missing_value("always"), "color"),
        ("--color [WHEN] + default_value", clap::arg!(--color [WHEN]).default_value("auto"), clap::arg!(--color ["WHEN"]).default_value("auto"), "color"),
        ("-c --config <FILE>", clap::arg!(-c --config <FILE>), clap::arg!(-c --config <"FILE">), "config"),
        ("--item <ITEM>...", clap::arg!(--item <ITEM> ...), clap::arg!(--item <"ITEM"> ...), "item"),
        ("[NAME]", clap::arg!([NAME]).default_value("dflt"), clap::arg!(["NAME"]).default_value("dflt"), "NAME"),
        ("<NAME>", clap::arg!(<NAME>), clap::arg!(<"NAME">), "NAME"),
    ]
}

fn check_macro_twin(i: usize, line: usize) -> Vec<(String, String)> {
    let (name, a, b, id) = macro_twins().into_iter().nth(i).unwrap();
    let long = a.get_long().map(|l| format!("--{}", l));
    let lines: Vec<Vec<String>> = match &long {
        Some(l) => vec![vec![], vec![l.clone()], vec![l.clone(), "x".into()], vec![format!("{}=x", l)], vec![l.clone(), "x".into(), l.clone(), "y".into()]],
        None => vec![vec![], vec!["x".into()], vec!["x".into(), "y".into()]],
    };
    let Some(argv) = lines.get(line) else { return vec![] };
    let run = |arg: clap::Arg| -> String {
        let mut full = vec!["prog".to_string()];
        full.extend(argv.iter().cloned());
        match clap::Command::new("prog").arg(arg).try_get_matches_from(full) {
            Ok(m) => format!("ok source={:?} values={:?}", m.value_source(id), m.get_raw(id).map(|v| v.map(|x| x.to_string_lossy().to_string()).collect::<Vec<_>>())),
            Err(e) => format!("err {:?}", e.kind()),
        }
    };
    let (ra, rb) = (run(a), run(b));
    if ra != rb {
        vec![("the two spellings of a value name in `arg!` declare different arguments".into(), format!("{} line {:?}: identifier form -> {}; string-literal form -> {}", name, argv, ra, rb))]
    } else {
        vec![]
    }
}

fn recheck(case: &Value) -> Vec<Violation> {
    if case["part"] == "macro-twins" {
        let (i, l) = (case["twin"].as_u64().unwrap_or(0) as usize, case["line"].as_u64().unwrap_or(0) as usize);
        return match catch(|| check_macro_twin(i, l)) {
            Ok(b) => b.into_iter().map(|(cc, w)| Violation { cause: cc, order: (0, 0), what: w, case: case.clone() }).collect(),
            Err(p) => vec![Violation { cause: p.key(), order: (0, 0), what: p.show(), case: case.clone() }],
        };
    }
    let Some(c) = cfg_from(&case["cfg"]) else { return vec![] };
    let seq: Vec<Tok> = case["sequence"].as_array().map(|a| a.iter().filter_map(|s| tok_parse(s.as_str().unwrap_or(""))).collect()).unwrap_or_default();
    let spec = c.spec();
    let Ok(cmd) = build_valid(&spec) else { return vec![] };
    let mut h = Hist::new();
    match catch(|| judge(&c, &spec, &cmd, &seq, &mut h)) {
        Ok(b) => b.into_iter().map(|(cc, w)| Violation { cause: cc, order: (0, 0), what: w, case: case.clone() }).collect(),
        Err(p) => vec![Violation { cause: p.key(), order: (0, 0), what: p.show(), case: case.clone() }],
    }
}

fn main() {
    let cli = Cli::parse();
    install_silent_hook();
    fix_env();
    std::env::set_var("CLAPMC_COUNT", "3");
    let tier = match &cli.mode {
        Mode::Replay(p) => run_replay(PROP, p, &recheck),
        Mode::Explore(t) => *t,
    };
    let rep = Report::new(PROP, tier, cli.seed);
    let n = tier.pick(3usize, 6usize);
    let cfgs = all_cfgs(tier);
    rep.rule("block = one configuration of the argument under test (kind x default x default_value_if variant x default_missing x env state x one relation/setting); case = one sequence of <= n distinct tokens over the spellings of `o`, `--other=x|y`, `--z`, `sub` (plus a trailing unknown flag under ignore_errors); expected origin, value and value_source from the source lattice R3, plus presence-logic clauses per relation. non-trivial = successful parses whose origin is pinned by R3");
    rep.set("bounds", json!({"configurations": cfgs.len(), "max_tokens": n, "kinds": KINDS.len(), "default_if_variants": DIFS.len(), "env_states": ENVS.len(), "relations": RELS.len()}));
    rep.assume("environment fixed before any thread starts: CLAPMC_SET=envv, CLAPMC_EMPTY='', CLAPMC_TRUE=true, CLAPMC_COUNT=3, CLAPMC_UNSET absent");
    rep.assume("conditional defaults are only judged against an `other` that is a Set option without a default of its own; explicit defaults on flag/count arguments are not enumerated; a repeated Set argument is C07's business and not pinned here");

    let rejected = std::sync::atomic::AtomicU64::new(0);
    par_blocks(cfgs.len(), |bi, _| {
        let c = &cfgs[bi];
        let spec = c.spec();
        let cmd = match build_valid(&spec) {
            Ok(x) => x,
            Err(_) => {
                rejected.fetch_add(1, std::sync::atomic::Ordering::Relaxed);
                return;
            }
        };
        let toks = toks_for(c);
        let mut h = Hist::new();
        // sequences of distinct tokens (plus one repeated o for Append/Count)
        let mut seqs: Vec<Vec<Tok>> = vec![vec![]];
        let mut frontier: Vec<Vec<Tok>> = vec![vec![]];
        for _ in 0..n {
            let mut next = vec![];
            for s in &frontier {
                for t in &toks {
                    let repeat_ok = matches!(c.kind, Kind::Append | Kind::Count) && matches!(t, Tok::OEq);
                    if !s.contains(t) || (repeat_ok && s.iter().filter(|x| *x == t).count() < 2) {
                        let mut x = s.clone();
                        x.push(*t);
                        next.push(x);
                    }
                }
            }
            seqs.extend(next.iter().cloned());
            frontier = next;
        }
        if c.rel == Rel::IgnoreErrors {
            // an unknown flag at the end: the error is swallowed, the lattice must still hold
            let extra: Vec<Vec<Tok>> = seqs.iter().filter(|s| s.len() < n).map(|s| {
                let mut x = s.clone();
                x.push(Tok::Bogus);
                x
            }).collect();
            seqs.extend(extra);
        }
        for (ci, seq) in seqs.iter().enumerate() {
            h.evaluations += 1;
            h.states += 1;
            h.transitions += 1;
            h.validated += 1;
            let order = (bi as u64, ci as u64);
            let mk = || json!({"cfg": cfg_json(c), "spec": spec.to_json(), "sequence": seq.iter().map(tok_name).collect::<Vec<_>>(), "argv_shown": show_argv(&spell(c, seq))});
            match catch(|| judge(c, &spec, &cmd, seq, &mut h)) {
                Ok(bad) => {
                    for (cause, w) in bad {
                        rep.violation(Violation { cause: cause.clone(), order, what: format!("{} argv {:?}: {} ({})", c.name(), spell(c, seq).iter().map(|a| show(a)).collect::<Vec<_>>(), cause, w), case: mk() });
                    }
                }
                Err(p) => rep.violation(Violation { cause: p.key(), order, what: format!("{} argv {:?}: {}", c.name(), spell(c, seq).iter().map(|a| show(a)).collect::<Vec<_>>(), p.show()), case: mk() }),
            }
        }
        if bi == 0 || bi == cfgs.len() / 2 || bi == cfgs.len() - 1 {
            rep.sample(json!({"config": c.name(), "sequences": seqs.len(), "last_argv": show_argv(&spell(c, seqs.last().unwrap()))}));
        }
        rep.merge(&h);
    });
    rep.set("configurations_rejected_by_validity_gate", json!(rejected.load(std::sync::atomic::Ordering::Relaxed)));
    {
        let mut h = Hist::new();
        for i in 0..macro_twins().len() {
            for line in 0..5usize {
                h.evaluations += 1;
                h.states += 1;
                h.transitions += 1;
                h.validated += 1;
                let mk = || json!({"part": "macro-twins", "twin": i, "line": line});
                match catch(|| check_macro_twin(i, line)) {
                    Ok(bad) => {
                        for (c, w) in bad {
                            rep.violation(Violation { cause: c.clone(), order: (1 << 40, (i * 10 + line) as u64), what: format!("{}: {}", c, w), case: mk() });
                        }
                    }
                    Err(p) => rep.violation(Violation { cause: p.key(), order: (1 << 40, 0), what: p.show(), case: mk() }),
                }
            }
        }
        rep.merge(&h);
    }
    rep.finish(&recheck);
}
