//! C08 — equivalent spellings of the same invocation parse to identical matches.
//!
//! Space: every successful parse of the conventional space (configurations x argv prefix tree) whose
//! reading the documented-grammar reader R1 accepts x every applicable rewrite of a root-level token
//! (`--o=v` <-> `--o v`, `-ov` <-> `-o v` <-> `-o=v`, cluster <-> separate shorts, alias <-> canonical,
//! unique prefix <-> full name under inference, explicit `--` before trailing plain positionals) and
//! every composition of two rewrites. Plus the ambiguity family: arguments / subcommands sharing a
//! prefix x every prefix.

use mccore::report::run_replay;
use mccore::*;
use mcmodel::conv;
use mcmodel::r1::{self, How};
use mcmodel::*;
use serde_json::{json, Value};
use std::collections::BTreeSet;

const PROP: &str = "C08";

fn flag_shaped(t: &[u8]) -> bool {
    t.len() > 1 && t[0] == b'-'
}

/// Observation with indices replaced by their rank (order-preserving renumbering).
fn normalise(ob: &Obs) -> Obs {
    let mut all: Vec<usize> = ob.args.values().flat_map(|a| a.indices.iter().copied()).collect();
    all.sort();
    all.dedup();
    let mut o = ob.clone();
    for a in o.args.values_mut() {
        // indices of default-sourced values are bookkeeping, not content
        if a.source == Some(Src::Default) {
            a.indices.clear();
        } else {
            for i in a.indices.iter_mut() {
                *i = all.binary_search(i).unwrap_or(0);
            }
        }
    }
    // re-rank after dropping defaults
    let mut kept: Vec<usize> = o.args.values().flat_map(|a| a.indices.iter().copied()).collect();
    kept.sort();
    kept.dedup();
    for a in o.args.values_mut() {
        for i in a.indices.iter_mut() {
            *i = kept.binary_search(i).unwrap_or(0);
        }
    }
    if let Some((n, s)) = &ob.sub {
        o.sub = Some((n.clone(), Box::new(normalise(s))));
    }
    o
}

/// All single-step rewrites of `argv` (root-level tokens only), labelled.
fn rewrites(spec: &CmdSpec, argv: &[Vec<u8>]) -> Vec<(String, Vec<Vec<u8>>)> {
    let rd = r1::read(spec, argv);
    let mut out: Vec<(String, Vec<Vec<u8>>)> = vec![];
    if !rd.accept() {
        return out;
    }
    let lv = &rd.level;
    let end = lv.sub_at.unwrap_or(argv.len());
    let infer = spec.has(Setting::InferLongArgs);
    let one = |id: &str| spec.arg(id).map(|a| r1::min_max(a) == (1, 1)).unwrap_or(false);
    let splice = |from: usize, n: usize, with: Vec<Vec<u8>>| -> Vec<Vec<u8>> {
        let mut v = argv[..from].to_vec();
        v.extend(with);
        v.extend_from_slice(&argv[from + n..]);
        v
    };
    for i in 0..end {
        let occs: Vec<&r1::Occ> = lv.occs.iter().filter(|o| o.at == i).collect();
        if occs.is_empty() {
            continue;
        }
        let t = &argv[i];
        if occs.len() == 1 {
            let o = occs[0];
            let a = spec.arg(&o.id);
            match o.how {
                How::LongEq => {
                    let v = &o.raw[0];
                    // a number-shaped value may be detached when the option allows negative numbers
                    let neg_ok = a.map(|a| a.allow_negative_numbers).unwrap_or(false) && r1::number_shaped(v);
                    if one(&o.id) && (!flag_shaped(v) || neg_ok) && v != b"--" && !a.map(|a| a.require_equals).unwrap_or(false) {
                        out.push(("--o=v -> --o v".into(), splice(i, 1, vec![format!("--{}", o.key).into_bytes(), v.clone()])));
                    }
                }
                How::Long => {
                    if one(&o.id) && o.raw.len() == 1 && i + 1 < end {
                        let mut tok = format!("--{}=", o.key).into_bytes();
                        tok.extend_from_slice(&o.raw[0]);
                        out.push(("--o v -> --o=v".into(), splice(i, 2, vec![tok])));
                    }
                }
                How::ShortAttached => {
                    let v = &o.raw[0];
                    if one(&o.id) && t.len() > 2 {
                        if !flag_shaped(v) && v != b"--" && !a.map(|a| a.require_equals).unwrap_or(false) && !v.is_empty() {
                            out.push(("-ov -> -o v".into(), splice(i, 1, vec![format!("-{}", o.key).into_bytes(), v.clone()])));
                        }
                        let has_eq = t[1 + o.key.len()] == b'=';
                        if !has_eq && !v.is_empty() {
                            let mut tok = format!("-{}=", o.key).into_bytes();
                            tok.extend_from_slice(v);
                            out.push(("-ov -> -o=v".into(), splice(i, 1, vec![tok])));
                        } else if has_eq && !v.is_empty() && !v.starts_with(b"=") && !a.map(|a| a.require_equals).unwrap_or(false) {
                            let mut tok = format!("-{}", o.key).into_bytes();
                            tok.extend_from_slice(v);
                            out.push(("-o=v -> -ov".into(), splice(i, 1, vec![tok])));
                        }
                    }
                }
                How::Short => {
                    if one(&o.id) && o.raw.len() == 1 && i + 1 < end && !o.raw[0].is_empty() && !o.raw[0].starts_with(b"=") {
                        let mut tok = format!("-{}", o.key).into_bytes();
                        tok.extend_from_slice(&o.raw[0]);
                        out.push(("-o v -> -ov".into(), splice(i, 2, vec![tok])));
                    }
                    // merge with a following separate short flag
                    if a.map(|a| r1::min_max(a).1 == 0).unwrap_or(false) && i + 1 < end {
                        let nx: Vec<&r1::Occ> = lv.occs.iter().filter(|p| p.at == i + 1).collect();
                        if nx.len() == 1 && nx[0].how == How::Short && argv[i + 1].len() == 1 + nx[0].key.len() {
                            let mut tok = t.clone();
                            tok.extend_from_slice(nx[0].key.as_bytes());
                            out.push(("-a -b -> -ab".into(), splice(i, 2, vec![tok])));
                        }
                    }
                }
                How::Pos => {}
            }
            // alias <-> canonical, prefix <-> full (long spellings)
            if matches!(o.how, How::Long | How::LongEq) {
                if let Some(a) = a {
                    let mut names: Vec<String> = a.long.iter().cloned().collect();
                    names.extend(a.aliases.iter().cloned());
                    let tail: Vec<u8> = match t.iter().position(|b| *b == b'=') {
                        Some(p) => t[p..].to_vec(),
                        None => vec![],
                    };
                    for n in &names {
                        if *n != o.key {
                            let mut tok = format!("--{}", n).into_bytes();
                            tok.extend_from_slice(&tail);
                            out.push((format!("--{} -> --{}", o.key, n), splice(i, 1, vec![tok])));
                        }
                        if infer {
                            for cut in 1..n.len() {
                                let p = &n[..cut];
                                if r1::long_candidates_root(spec, p) == 1 && r1::resolve_long_root(spec, p).as_deref() == Some(&a.id) && p != o.key {
                                    let mut tok = format!("--{}", p).into_bytes();
                                    tok.extend_from_slice(&tail);
                                    out.push((format!("--{} -> unique prefix --{}", o.key, p), splice(i, 1, vec![tok])));
                                }
                            }
                        }
                    }
                }
            }
        } else {
            // a cluster: spell every member separately
            let mut parts: Vec<Vec<u8>> = vec![];
            for o in &occs {
                match o.how {
                    How::Short => parts.push(format!("-{}", o.key).into_bytes()),
                    How::ShortAttached => {
                        // keep this member exactly as spelled (from its key to the end of the token)
                        let pos = t.windows(o.key.len()).rposition(|w| w == o.key.as_bytes());
                        let mut tok = b"-".to_vec();
                        match pos {
                            Some(p) if p >= 1 => tok.extend_from_slice(&t[p..]),
                            _ => {
                                tok.extend_from_slice(o.key.as_bytes());
                                tok.extend_from_slice(&o.raw[0]);
                            }
                        }
                        parts.push(tok);
                    }
                    _ => {}
                }
            }
            if parts.len() == occs.len() {
                // reconstruct check: the concatenation of members (minus dashes) must be the token
                let mut cat = b"-".to_vec();
                for p in &parts {
                    cat.extend_from_slice(&p[1..]);
                }
                if &cat == t {
                    out.push(("cluster -> separate shorts".into(), splice(i, 1, parts)));
                }
            }
        }
    }
    // explicit `--` before a trailing run of plain positionals
    // (with allow_missing_positional the `--` is documented to be meaningful: it sends what follows
    // to the last positional, so it is not an equivalent spelling there)
    if lv.sub.is_none() && lv.escape_at.is_none() && !spec.has(Setting::AllowMissingPositional) {
        let pos_at: Vec<usize> = lv.occs.iter().filter(|o| o.how == How::Pos).map(|o| o.at).collect();
        if let Some(first) = pos_at.iter().min() {
            let all_after = (*first..argv.len()).all(|k| !flag_shaped(&argv[k]) && argv[k] != b"--")
                && lv.occs.iter().filter(|o| o.how != How::Pos).all(|o| o.at < *first && {
                    // option values sit before the first positional as well
                    true
                })
                && {
                    // every token from `first` on belongs to a positional occurrence
                    let n_pos_tokens: usize = lv.occs.iter().filter(|o| o.how == How::Pos).map(|o| o.raw.len()).sum();
                    n_pos_tokens == argv.len() - *first
                };
            let last_only = spec.args.iter().any(|a| a.last);
            if all_after && !last_only {
                out.push(("insert -- before positionals".into(), splice(*first, 0, vec![b"--".to_vec()])));
                // ... and between them: the escape does not end a multi-value positional's occurrence
                for k in *first + 1..argv.len() {
                    out.push(("insert -- between positionals".into(), splice(k, 0, vec![b"--".to_vec()])));
                }
            }
        }
    }
    out
}

fn judge(spec: &CmdSpec, cmd: &clap::Command, argv: &[Vec<u8>], h: &mut Hist) -> Vec<(String, String, Value)> {
    let mut bad = vec![];
    let Outcome::Ok(base) = parse(cmd, spec, argv) else {
        h.bump("base/err");
        return bad;
    };
    let base_n = normalise(&base);
    let mut seen: BTreeSet<Vec<Vec<u8>>> = BTreeSet::new();
    seen.insert(argv.to_vec());
    let mut frontier: Vec<(Vec<String>, Vec<Vec<u8>>)> = vec![(vec![], argv.to_vec())];
    let mut any = false;
    for depth in 0..2 {
        let mut next = vec![];
        for (labels, line) in &frontier {
            for (label, rw) in rewrites(spec, line) {
                if !seen.insert(rw.clone()) {
                    continue;
                }
                any = true;
                h.evaluations += 1;
                h.transitions += 1;
                h.validated += 1;
                h.bump(&format!("rewrite:{}", label.split(" -> ").next().unwrap_or("").chars().take(12).collect::<String>()));
                let mut l2 = labels.clone();
                l2.push(label.clone());
                match parse(cmd, spec, &rw) {
                    Outcome::Ok(o2) => {
                        let n2 = normalise(&o2);
                        if n2 != base_n {
                            let kind = label.split(" -> ").next().unwrap_or("").to_string();
                            let kind = if kind.starts_with("--") && label.contains("prefix") { "unique prefix".to_string() } else if kind.starts_with("--") && !kind.contains('=') && !kind.contains(' ') { "alias/canonical".to_string() } else { kind };
                            bad.push((
                                format!("equivalent spelling parses differently ({})", if depth == 0 { kind } else { format!("composition ending in {}", kind) }),
                                format!("rewrites {:?}: {:?} gives {} but {:?} gives {}", l2, argv.iter().map(|a| show(a)).collect::<Vec<_>>(), base_n.show(), rw.iter().map(|a| show(a)).collect::<Vec<_>>(), n2.show()),
                                json!({"rewritten_hex": hex_argv(&rw), "rewrites": l2}),
                            ));
                        }
                    }
                    Outcome::Err(e) => {
                        bad.push((
                            format!("equivalent spelling is rejected ({})", label.split(" -> ").next().unwrap_or("")),
                            format!("rewrites {:?}: {:?} parses but {:?} fails with {}", l2, argv.iter().map(|a| show(a)).collect::<Vec<_>>(), rw.iter().map(|a| show(a)).collect::<Vec<_>>(), e.kind),
                            json!({"rewritten_hex": hex_argv(&rw), "rewrites": l2}),
                        ));
                    }
                }
                next.push((l2, rw));
            }
        }
        frontier = next;
    }
    if any {
        h.nontrivial += 1;
        h.bump("base/rewritten");
    } else {
        h.bump("base/no-rewrite-applies");
    }
    bad
}

// ---- ambiguity family
fn ambiguity_specs() -> Vec<(String, CmdSpec)> {
    let mut v = vec![];
    let mut c = CmdSpec::new("prog");
    c.set(Setting::InferLongArgs);
    c.set(Setting::InferSubcommands);
    c.args.push(ArgSpec::flag("verbose", None, Some("verbose")));
    let mut lvl = ArgSpec::opt("level", None, Some("level"));
    lvl.aliases.push("verbosity".into());
    c.args.push(lvl);
    c.args.push(ArgSpec::flag("ver", None, Some("ver")));
    let mut test = CmdSpec::new("test");
    test.aliases.push("check".into()); // hidden alias sharing a prefix with the sibling `chess`
    c.subs.push(test);
    c.subs.push(CmdSpec::new("chess"));
    c.subs.push(CmdSpec::new("temp"));
    let mut te = CmdSpec::new("te");
    te.aliases.push("tes".into());
    c.subs.push(te);
    v.push(("longs verbose/ver + alias verbosity(level); subs test/temp/te(alias tes)".to_string(), c));
    let mut c = CmdSpec::new("prog");
    c.set(Setting::InferLongArgs);
    c.set(Setting::InferSubcommands);
    c.version = Some("1".into());
    c.args.push(ArgSpec::flag("verify", None, Some("verify")));
    c.args.push(ArgSpec::flag("hello", None, Some("hello")));
    let mut s = CmdSpec::new("hex");
    s.visible_aliases.push("helper".into());
    c.subs.push(s);
    v.push(("longs verify/hello vs generated version/help; sub hex alias helper vs generated help".to_string(), c));
    // aliases that are prefixes of their own command's name and of its siblings' names: typed in
    // full they are exact matches, not ambiguous prefixes
    let mut c = CmdSpec::new("prog");
    c.set(Setting::InferLongArgs);
    c.set(Setting::InferSubcommands);
    let mut inst = CmdSpec::new("install");
    inst.aliases.push("i".into());
    inst.visible_aliases.push("in".into());
    // a visible alias that shares no prefix with any other name: every prefix of it is unique
    inst.visible_aliases.push("setup".into());
    c.subs.push(inst);
    // long flag subcommands: `--sync` (info) next to the alias `--synopsis` of `--look` (init)
    let mut info = CmdSpec::new("info");
    info.long_flag = Some("sync".into());
    c.subs.push(info);
    let mut init = CmdSpec::new("init");
    init.long_flag = Some("look".into());
    init.long_flag_aliases.push("synopsis".into());
    c.subs.push(init);
    let mut o = ArgSpec::opt("output", None, Some("output"));
    o.aliases.push("o".into());
    o.aliases.push("out".into());
    c.args.push(o);
    let mut outline = ArgSpec::flag("outline", None, Some("outline"));
    outline.visible_aliases.push("paint".into());
    outline.aliases.push("brush".into());
    c.args.push(outline);
    v.push(("sub install (aliases i, in) next to info/init; long output (aliases o, out) next to outline".to_string(), c));
    v
}

fn judge_ambiguity(spec: &CmdSpec, cmd: &clap::Command, h: &mut Hist) -> Vec<(String, String, Value)> {
    let mut bad = vec![];
    // long prefixes
    let mut names: Vec<(String, String)> = vec![]; // (key, arg id)
    for a in &spec.args {
        for k in a.long.iter().chain(a.aliases.iter()).chain(a.visible_aliases.iter()) {
            names.push((k.clone(), a.id.clone()));
        }
    }
    names.push(("help".into(), "<help>".into()));
    if spec.version.is_some() {
        names.push(("version".into(), "<version>".into()));
    }
    let mut prefixes: BTreeSet<String> = BTreeSet::new();
    for (k, _) in &names {
        for cut in 1..=k.len() {
            prefixes.insert(k[..cut].to_string());
        }
    }
    for p in &prefixes {
        h.evaluations += 1;
        h.transitions += 1;
        h.validated += 1;
        let exact: Vec<&(String, String)> = names.iter().filter(|(k, _)| k == p).collect();
        let mut cands: Vec<&String> = names.iter().filter(|(k, _)| k.starts_with(p.as_str())).map(|(_, id)| id).collect();
        cands.sort();
        cands.dedup();
        let is_opt = |id: &str| spec.arg(id).map(|a| a.act().takes_values()).unwrap_or(false);
        let argv: Vec<Vec<u8>> = vec![format!("--{}", p).into_bytes(), b"val".to_vec()];
        // give a value only when the thing the prefix should resolve to takes one; for ambiguous
        // prefixes any candidate taking a value gets it (the line must be rejected either way)
        let target_takes = match exact.first() {
            Some(e) => is_opt(&e.1),
            None => cands.iter().any(|c| is_opt(c)),
        };
        let mut out = parse(cmd, spec, &argv[..if target_takes { 2 } else { 1 }]);
        if exact.is_empty() && cands.len() > 1 {
            // ambiguous: neither form may be accepted
            let alt = parse(cmd, spec, &argv[..if target_takes { 1 } else { 2 }]);
            if matches!(alt, Outcome::Ok(_)) {
                out = alt;
            }
        }
        let case = json!({"ambiguity": true, "argv_hex": hex_argv(&argv)});
        match out {
            Outcome::Ok(ob) => {
                let explicit: Vec<&String> = ob.args.iter().filter(|(_, a)| a.source == Some(Src::Cli)).map(|(k, _)| k).collect();
                if exact.is_empty() && cands.len() > 1 {
                    bad.push(("an ambiguous long prefix was silently resolved".into(), format!("--{} could mean {:?}; parsed as {:?}", p, cands, explicit), case));
                } else if let Some(e) = exact.first() {
                    if !explicit.iter().any(|x| **x == e.1) {
                        bad.push(("an exact long name did not resolve to its own argument".into(), format!("--{} is {} but parsed as {:?}", p, e.1, explicit), case));
                    }
                } else if cands.len() == 1 && !explicit.iter().any(|x| x == &cands[0]) {
                    bad.push(("a unique long prefix resolved to something else".into(), format!("--{} -> {:?}, parsed as {:?}", p, cands, explicit), case));
                }
                h.nontrivial += 1;
            }
            Outcome::Err(e) => {
                let helpish = e.kind == "DisplayHelp" || e.kind == "DisplayVersion";
                let sole = if exact.is_empty() { if cands.len() == 1 { Some(cands[0].as_str()) } else { None } } else { Some(exact[0].1.as_str()) };
                match sole {
                    Some(id) if id.starts_with('<') => {
                        if !helpish {
                            bad.push(("a unique prefix of a generated flag was rejected".into(), format!("--{} -> {} gave {}", p, id, e.kind), case));
                        }
                    }
                    Some(id) => bad.push(("a unique long prefix / exact name was rejected".into(), format!("--{} -> {} gave {}", p, id, e.kind), case)),
                    None => {
                        if helpish {
                            bad.push(("an ambiguous long prefix was silently resolved".into(), format!("--{} could mean {:?}; gave {}", p, cands, e.kind), case));
                        }
                    }
                }
            }
        }
    }
    // subcommand prefixes
    let mut snames: Vec<(String, String)> = vec![];
    for s in &spec.subs {
        for k in std::iter::once(&s.name).chain(s.aliases.iter()).chain(s.visible_aliases.iter()) {
            snames.push((k.clone(), s.name.clone()));
        }
    }
    snames.push(("help".into(), "<help>".into()));
    let mut sp: BTreeSet<String> = BTreeSet::new();
    for (k, _) in &snames {
        for cut in 1..=k.len() {
            sp.insert(k[..cut].to_string());
        }
    }
    for p in &sp {
        h.evaluations += 1;
        h.transitions += 1;
        h.validated += 1;
        let exact: Vec<&(String, String)> = snames.iter().filter(|(k, _)| k == p).collect();
        let mut cands: Vec<&String> = snames.iter().filter(|(k, _)| k.starts_with(p.as_str())).map(|(_, id)| id).collect();
        cands.sort();
        cands.dedup();
        let argv = vec![p.clone().into_bytes()];
        let case = json!({"ambiguity": true, "argv_hex": hex_argv(&argv)});
        match parse(cmd, spec, &argv) {
            Outcome::Ok(ob) => {
                let got = ob.sub.as_ref().map(|s| s.0.clone());
                if exact.is_empty() && cands.len() > 1 {
                    bad.push(("an ambiguous subcommand prefix was silently resolved".into(), format!("{} could mean {:?}; dispatched {:?}", p, cands, got), case));
                } else {
                    let want = exact.first().map(|e| e.1.clone()).or_else(|| cands.first().map(|c| (*c).clone()));
                    if got != want {
                        bad.push(("a subcommand name/prefix resolved to something else".into(), format!("{} -> {:?}, dispatched {:?}", p, want, got), case));
                    }
                }
                h.nontrivial += 1;
            }
            Outcome::Err(e) => {
                let sole = if exact.is_empty() { if cands.len() == 1 { Some(cands[0].as_str()) } else { None } } else { Some(exact[0].1.as_str()) };
                match sole {
                    Some("<help>") => {
                        if e.kind != "DisplayHelp" {
                            bad.push(("the help subcommand (unique prefix) was rejected".into(), format!("{} gave {}", p, e.kind), case));
                        }
                    }
                    Some(id) => bad.push(("a unique subcommand prefix / exact name was rejected".into(), format!("{} -> {} gave {}", p, id, e.kind), case)),
                    None => {
                        if e.kind == "DisplayHelp" {
                            bad.push(("an ambiguous subcommand prefix was silently resolved".into(), format!("{} could mean {:?}; gave help", p, cands), case));
                        }
                    }
                }
            }
        }
    }
    // prefixes of long flag subcommands and their aliases (`--<prefix>`); the names are chosen so
    // that no argument's long name shares a prefix with them
    let mut lnames: Vec<(String, String)> = vec![];
    for s in &spec.subs {
        for k in s.long_flag.iter().chain(s.long_flag_aliases.iter()).chain(s.visible_long_flag_aliases.iter()) {
            lnames.push((k.clone(), s.name.clone()));
        }
    }
    let mut lp: BTreeSet<String> = BTreeSet::new();
    for (k, _) in &lnames {
        for cut in 1..=k.len() {
            lp.insert(k[..cut].to_string());
        }
    }
    for p in &lp {
        h.evaluations += 1;
        h.transitions += 1;
        h.validated += 1;
        let exact: Vec<&(String, String)> = lnames.iter().filter(|(k, _)| k == p).collect();
        let mut cands: Vec<&String> = lnames.iter().filter(|(k, _)| k.starts_with(p.as_str())).map(|(_, id)| id).collect();
        cands.sort();
        cands.dedup();
        let argv = vec![format!("--{}", p).into_bytes()];
        let case = json!({"ambiguity": true, "argv_hex": hex_argv(&argv)});
        let want = exact.first().map(|e| e.1.clone()).or_else(|| if cands.len() == 1 { Some(cands[0].clone()) } else { None });
        match parse(cmd, spec, &argv) {
            Outcome::Ok(ob) => {
                let got = ob.sub.as_ref().map(|s| s.0.clone());
                match (&want, &got) {
                    (None, Some(g)) => bad.push(("an ambiguous long-flag-subcommand prefix was silently resolved".into(), format!("--{} could mean {:?}; dispatched {}", p, cands, g), case)),
                    (Some(w), g) if g.as_ref() != Some(w) => bad.push(("a long flag subcommand name/prefix resolved to something else".into(), format!("--{} -> {}, dispatched {:?}", p, w, g), case)),
                    _ => {}
                }
                h.nontrivial += 1;
            }
            Outcome::Err(e) => {
                if let Some(w) = want {
                    bad.push(("a unique long-flag-subcommand prefix / exact name was rejected".into(), format!("--{} -> {} gave {}", p, w, e.kind), case));
                }
            }
        }
    }
    bad
}

fn recheck(case: &Value) -> Vec<Violation> {
    let Ok(spec) = CmdSpec::from_json(&case["spec"]) else { return vec![] };
    let Ok(cmd) = build_valid(&spec) else { return vec![] };
    let mut h = Hist::new();
    let r = if case["ambiguity"].as_bool().unwrap_or(false) {
        catch(|| judge_ambiguity(&spec, &cmd, &mut h))
    } else {
        let argv = unhex_argv(&case["argv_hex"]);
        catch(|| judge(&spec, &cmd, &argv, &mut h))
    };
    match r {
        Ok(b) => b.into_iter().map(|(c, w, _)| Violation { cause: c, order: (0, 0), what: w, case: case.clone() }).collect(),
        Err(p) => vec![Violation { cause: p.key(), order: (0, 0), what: p.show(), case: case.clone() }],
    }
}

fn main() {
    let cli = Cli::parse();
    install_silent_hook();
    fix_env();
    let tier = match &cli.mode {
        Mode::Replay(p) => run_replay(PROP, p, &recheck),
        Mode::Explore(t) => *t,
    };
    let rep = Report::new(PROP, tier, cli.seed);
    let plan: Vec<(usize, usize, usize)> = match tier {
        Tier::Quick => vec![(2, 1, 3), (3, 0, 2)],
        Tier::Thorough => vec![(3, 1, 3), (2, 2, 3), (2, 1, 4)],
    };
    rep.rule("block = one conventional configuration; base case = one argv of the prefix tree A(cfg)^{<=L} that parses successfully; transitions = rewritten lines (every applicable single rewrite of a root-level token and every composition of two), each parsed and compared with the base observation (indices up to order-preserving renumbering). Ambiguity family: every prefix of every long name/alias and subcommand name/alias of two hand-built trees with shared prefixes. non-trivial = base lines to which at least one rewrite applied");
    rep.set("bounds", json!({"plan_(max_templates,max_features,max_argv_len)": plan, "rewrite_depth": 2}));
    rep.assume("rewrites are derived from the documented-grammar reader's reading of the line (mc/model/src/r1.rs) and only applied where the documentation makes the two spellings equivalent: single-value options for attached/detached forms, non-flag-looking trailing positionals for the explicit `--`");

    let mut blocks: Vec<(conv::Conv, usize)> = vec![];
    for (na, nf, l) in &plan {
        for c in conv::configs(*na, *nf) {
            if let Some(b) = blocks.iter_mut().find(|b| b.0.name == c.name) {
                b.1 = b.1.max(*l);
            } else {
                blocks.push((c, *l));
            }
        }
    }
    for c in conv::hyphen_configs() {
        if c.name.starts_with("posorder:") {
            blocks.push((c, tier.pick(4usize, 5usize)));
        } else if c.name.starts_with("negnum:") {
            // attached and detached spellings of a negative-number value
            blocks.push((c, tier.pick(3usize, 4usize)));
        }
    }
    par_blocks(blocks.len(), |bi, _| {
        let (cv, l) = &blocks[bi];
        let Ok(cmd) = build_valid(&cv.spec) else { return };
        let alpha = if cv.name.starts_with("posorder:") || cv.name.starts_with("negnum:") { conv::hyphen_alphabet() } else { conv::alphabet(&cv.spec) };
        let mut h = Hist::new();
        let mut argv: Vec<Vec<u8>> = vec![];
        let mut idx = 0u64;
        for_each_seq(alpha.len(), *l, |s| {
            argv.clear();
            argv.extend(s.iter().map(|i| alpha[*i].clone()));
            h.states += 1;
            idx += 1;
            let order = (((cv.n_args + cv.n_feats) as u64) << 32 | bi as u64, idx);
            match catch(|| judge(&cv.spec, &cmd, &argv, &mut h)) {
                Ok(bad) => {
                    for (c, w, extra) in bad {
                        rep.violation(Violation {
                            cause: c.clone(),
                            order,
                            what: format!("config {}: {} — {}", cv.name, c, w),
                            case: json!({"config": cv.name, "spec": cv.spec.to_json(), "argv_hex": hex_argv(&argv), "argv_shown": show_argv(&argv), "detail": extra}),
                        });
                    }
                }
                Err(p) => rep.violation(Violation {
                    cause: p.key(),
                    order,
                    what: format!("config {} argv {:?}: {}", cv.name, argv.iter().map(|a| show(a)).collect::<Vec<_>>(), p.show()),
                    case: json!({"config": cv.name, "spec": cv.spec.to_json(), "argv_hex": hex_argv(&argv)}),
                }),
            }
        });
        if bi == 1 || bi == blocks.len() - 1 {
            rep.sample(json!({"config": cv.name, "max_argv_len": l, "example_rewrites": rewrites(&cv.spec, &[b"--opt=v".to_vec()]).iter().map(|r| r.0.clone()).collect::<Vec<_>>()}));
        }
        rep.merge(&h);
    });
    // ambiguity family
    let mut h = Hist::new();
    for (name, spec) in ambiguity_specs() {
        let cmd = build_valid(&spec).unwrap_or_else(|p| rep.machinery(&format!("ambiguity spec rejected by the gate: {}", p.show())));
        match catch(|| judge_ambiguity(&spec, &cmd, &mut h)) {
            Ok(bad) => {
                for (c, w, case) in bad {
                    let mut case = case;
                    case["spec"] = spec.to_json();
                    rep.violation(Violation { cause: c.clone(), order: (u64::MAX, 0), what: format!("ambiguity tree [{}]: {} — {}", name, c, w), case });
                }
            }
            Err(p) => rep.violation(Violation { cause: p.key(), order: (u64::MAX, 0), what: p.show(), case: json!({"ambiguity": true, "spec": spec.to_json()}) }),
        }
        rep.sample(json!({"ambiguity_tree": name}));
    }
    rep.merge(&h);
    rep.finish(&recheck);
}
