//! C18 — the dynamic completion engine never fails and only offers valid continuations.
//!
//! (a) dev(d) configurations x argv in A(cfg)^{<=L} x every cursor index 0..=len+1: returns a list
//!     or the plain "no completion generated" error; no panic (E3 supervisor for aborts/stalls).
//! (b) constructive: hand-built trees x prefixes that leave no option pending and contain no `--`
//!     x every viable partial word: every offered option/subcommand extends the word, belongs to
//!     the level reached and is accepted as such by the real parser; every visible option and
//!     subcommand with a spelling extending the word is represented; hidden ones only when nothing
//!     visible matches.

use clap_complete::engine::complete;
use mccore::report::run_replay;
use mccore::sup::{self, Journal};
use mccore::*;
use mcmodel::dev::{alphabet, dev_configs};
use mcmodel::*;
use serde_json::{json, Value};
use std::collections::BTreeSet;
use std::ffi::OsString;

const PROP: &str = "C18";

fn run_complete(cmd: &clap::Command, spec: &CmdSpec, argv: &[Vec<u8>], index: usize) -> Result<Result<Vec<(Vec<u8>, bool)>, String>, PanicInfo> {
    let mut args: Vec<OsString> = vec![];
    if !spec.has(Setting::NoBinaryName) {
        args.push(OsString::from("prog"));
    }
    args.extend(argv.iter().map(|a| os(a)));
    catch(|| {
        let mut c = cmd.clone();
        match complete(&mut c, args, index, None) {
            Ok(v) => Ok(v.into_iter().map(|c| (os_bytes(c.get_value()), c.is_hide_set())).collect()),
            Err(e) => Err(e.to_string()),
        }
    })
}

// ---------------------------------------------------------------------------------------------
// (b)

struct LevelDesc {
    longs: Vec<(String, String, bool, bool)>, // spelling (without --), arg id, hidden, takes value
    shorts: Vec<(char, String, bool, bool)>,
    subs: Vec<(String, String, bool)>, // spelling, canonical name, hidden
}

fn describe(c: &CmdSpec) -> LevelDesc {
    let mut d = LevelDesc { longs: vec![], shorts: vec![], subs: vec![] };
    for a in &c.args {
        let takes = a.act().takes_values();
        if let Some(l) = &a.long {
            d.longs.push((l.clone(), a.id.clone(), a.hide, takes));
        }
        for l in &a.visible_aliases {
            d.longs.push((l.clone(), a.id.clone(), a.hide, takes));
        }
        for l in &a.aliases {
            d.longs.push((l.clone(), a.id.clone(), true, takes));
        }
        if let Some(s) = a.short {
            d.shorts.push((s, a.id.clone(), a.hide, takes));
        }
        for s in &a.visible_short_aliases {
            d.shorts.push((*s, a.id.clone(), a.hide, takes));
        }
        for s in &a.short_aliases {
            d.shorts.push((*s, a.id.clone(), true, takes));
        }
    }
    if !c.has(Setting::DisableHelpFlag) {
        d.longs.push(("help".into(), "<help>".into(), false, false));
        d.shorts.push(('h', "<help>".into(), false, false));
    }
    if c.version.is_some() {
        d.longs.push(("version".into(), "<version>".into(), false, false));
        d.shorts.push(('V', "<version>".into(), false, false));
    }
    for s in &c.subs {
        d.subs.push((s.name.clone(), s.name.clone(), s.hide));
        for a in &s.visible_aliases {
            d.subs.push((a.clone(), s.name.clone(), s.hide));
        }
        for a in &s.aliases {
            d.subs.push((a.clone(), s.name.clone(), true));
        }
    }
    if !c.subs.is_empty() && !c.has(Setting::DisableHelpSubcommand) {
        d.subs.push(("help".into(), "help".into(), false));
    }
    d
}

fn trees() -> Vec<(String, CmdSpec)> {
    let mut out = vec![];
    let mut root = CmdSpec::new("prog");
    let mut v = ArgSpec::flag("verbose", Some('v'), Some("verbose"));
    v.visible_aliases.push("verb2".into());
    v.aliases.push("vhidden".into());
    root.args.push(v);
    let mut hf = ArgSpec::flag("hidflag", Some('H'), Some("hidflag"));
    hf.hide = true;
    root.args.push(hf);
    let mut o = ArgSpec::opt("opt", Some('o'), Some("opt"));
    o.parser = Vp::Pv(vec![PvSpec { name: "one".into(), ..Default::default() }, PvSpec { name: "two".into(), ..Default::default() }, PvSpec { name: "hidval".into(), hide: true, ..Default::default() }]);
    root.args.push(o);
    root.args.push(ArgSpec::flag("s", Some('s'), None));
    let mut lo = ArgSpec::flag("longonly", None, Some("longonly"));
    // a hidden alias that shares its first letter with another argument's long, not with its own
    lo.aliases.push("oprivate".into());
    root.args.push(lo);
    let mut build = CmdSpec::new("build");
    build.aliases.push("b".into());
    build.visible_aliases.push("bld".into());
    build.args.push(ArgSpec::flag("release", Some('r'), Some("release")));
    build.args.push(ArgSpec::opt("target", Some('t'), Some("target")));
    let mut deep = CmdSpec::new("deep");
    deep.args.push(ArgSpec::flag("y", Some('y'), Some("yank")));
    build.subs.push(deep);
    // a hidden subcommand two levels below the root, next to the visible `deep`
    let mut dark = CmdSpec::new("dark");
    dark.hide = true;
    build.subs.push(dark);
    let mut bench = CmdSpec::new("bench");
    bench.args.push(ArgSpec::flag("quick", Some('q'), Some("quick")));
    let mut hid = CmdSpec::new("hidsub");
    hid.hide = true;
    // a hidden subcommand is only hidden where it is listed: its own options and children are not
    hid.args.push(ArgSpec::flag("dry", Some('d'), Some("dry-run")));
    let mut dump = CmdSpec::new("dump");
    dump.args.push(ArgSpec::flag("z", Some('z'), Some("zap")));
    hid.subs.push(dump);
    hid.subs.push(CmdSpec::new("doctor"));
    let mut install = CmdSpec::new("install");
    install.aliases.push("i".into());
    root.subs = vec![build, bench, hid, install];
    out.push(("tree with hidden/visible aliases, hidden flag/sub/value".to_string(), root.clone()));
    let mut r2 = root.clone();
    r2.version = Some("1.0".into());
    let mut p = ArgSpec::pos("pos", 1);
    p.parser = Vp::Pv(vec![PvSpec { name: "alpha".into(), ..Default::default() }, PvSpec { name: "beta".into(), ..Default::default() }]);
    r2.args.push(p);
    out.push(("same + version + positional with possible values".to_string(), r2));
    let mut r3 = root.clone();
    r3.subs.clear();
    r3.set(Setting::DisableHelpFlag);
    out.push(("no subcommands, help flag disabled".to_string(), r3));
    let mut r4 = root.clone();
    r4.set(Setting::NoBinaryName);
    out.push(("same tree without a binary name".to_string(), r4));
    out
}

/// prefixes: (tokens, path of subcommand names reached)
fn prefixes(spec: &CmdSpec) -> Vec<(Vec<&'static str>, Vec<&'static str>)> {
    let mut v: Vec<(Vec<&str>, Vec<&str>)> = vec![
        (vec![], vec![]),
        (vec!["-v"], vec![]),
        (vec!["--opt", "one"], vec![]),
        (vec!["--opt=one"], vec![]),
        (vec!["-oone"], vec![]),
        (vec!["-vs"], vec![]),
        (vec!["--verbose", "--longonly"], vec![]),
    ];
    if !spec.subs.is_empty() {
        v.extend(vec![
            (vec!["build"], vec!["build"]),
            (vec!["build", "-r"], vec!["build"]),
            (vec!["build", "--target", "t"], vec!["build"]),
            (vec!["build", "--target=t"], vec!["build"]),
            (vec!["bench"], vec!["bench"]),
            (vec!["-v", "build"], vec!["build"]),
            (vec!["bld"], vec!["build"]),
            // hidden aliases of subcommands are accepted by the parser and lead to the same level
            (vec!["b"], vec!["build"]),
            (vec!["b", "deep"], vec!["build", "deep"]),
            (vec!["i"], vec!["install"]),
            (vec!["build", "deep"], vec!["build", "deep"]),
            (vec!["--opt=one", "build", "-r", "deep"], vec!["build", "deep"]),
            // an option given with an attached empty value is complete: the next word starts afresh
            (vec!["build", "--target="], vec!["build"]),
            (vec!["hidsub"], vec!["hidsub"]),
            // the generated help subcommand and the copies of the tree below it
            (vec!["help"], vec![]),
            (vec!["help", "build"], vec!["build"]),
            (vec!["help", "hidsub"], vec!["hidsub"]),
            (vec!["help", "build", "deep"], vec!["build", "deep"]),
            (vec!["hidsub", "-d"], vec!["hidsub"]),
            (vec!["hidsub", "dump"], vec!["hidsub", "dump"]),
        ]);
    }
    v
}

fn level_at<'a>(spec: &'a CmdSpec, path: &[&str]) -> &'a CmdSpec {
    let mut c = spec;
    for p in path {
        c = c.sub(p).unwrap();
    }
    c
}

fn partials(d: &LevelDesc) -> Vec<String> {
    let mut s: BTreeSet<String> = BTreeSet::new();
    for w in ["", "-", "--"] {
        s.insert(w.into());
    }
    for (l, ..) in &d.longs {
        let full = format!("--{}", l);
        for cut in 2..=full.len() {
            s.insert(full[..cut].to_string());
        }
    }
    for (c, _, _, takes) in &d.shorts {
        s.insert(format!("-{}", c));
        // clusters of value-less shorts, and one ending in a value-taking short
        for (c2, _, _, t2) in &d.shorts {
            if !takes && c2 != c {
                s.insert(format!("-{}{}", c, c2));
                let _ = t2;
            }
        }
    }
    for (n, ..) in &d.subs {
        for cut in 1..=n.len() {
            s.insert(n[..cut].to_string());
        }
    }
    s.into_iter().collect()
}

fn check_b(spec: &CmdSpec, cmd: &clap::Command, prefix: &[&str], path: &[&str], partial: &str, h: &mut Hist) -> Vec<(String, String)> {
    let mut bad = vec![];
    let lvl = level_at(spec, path);
    let d = describe(lvl);
    let mut argv: Vec<Vec<u8>> = prefix.iter().map(|s| s.as_bytes().to_vec()).collect();
    argv.push(partial.as_bytes().to_vec());
    // prog at 0, unless the definition has no binary name (REPL-style use)
    let index = if spec.has(Setting::NoBinaryName) { argv.len() - 1 } else { argv.len() };
    let cands = match run_complete(cmd, spec, &argv, index) {
        Ok(Ok(c)) => c,
        Ok(Err(e)) => {
            bad.push(("no completion generated for a word under the cursor".into(), e));
            return bad;
        }
        Err(p) => {
            bad.push((p.key(), p.show()));
            return bad;
        }
    };
    h.nontrivial += 1;
    // the same request on a definition that was used for a parse of the preceding words before
    // (by reference, as an application that parses and completes with one definition does)
    {
        let reused = catch(|| {
            let mut c = cmd.clone();
            let mut line: Vec<OsString> = vec![];
            if !spec.has(Setting::NoBinaryName) {
                line.push(OsString::from("prog"));
            }
            line.extend(prefix.iter().map(|s| OsString::from(*s)));
            let _ = c.try_get_matches_from_mut(line.clone());
            line.push(OsString::from(partial));
            match complete(&mut c, line, index, None) {
                Ok(v) => Ok(v.into_iter().map(|c| (os_bytes(c.get_value()), c.is_hide_set())).collect::<Vec<_>>()),
                Err(e) => Err(e.to_string()),
            }
        });
        match reused {
            Ok(Ok(r)) => {
                if r != cands {
                    bad.push(("a definition used for a parse before offers other candidates than a fresh one".into(), format!("fresh {:?} reused {:?}", cands.iter().map(|c| String::from_utf8_lossy(&c.0).to_string()).collect::<Vec<_>>(), r.iter().map(|c| String::from_utf8_lossy(&c.0).to_string()).collect::<Vec<_>>())));
                }
            }
            Ok(Err(e)) => bad.push(("a definition used for a parse before offers other candidates than a fresh one".into(), format!("reused: {}", e))),
            Err(p) => bad.push((p.key(), format!("reused definition: {}", p.show()))),
        }
    }
    let cand_strs: Vec<String> = cands.iter().map(|c| String::from_utf8_lossy(&c.0).to_string()).collect();
    if prefix.first() == Some(&"help") {
        // below the generated `help` subcommand the words name a path of subcommands: only the names
        // (no aliases, no options) of the subcommands of the command reached continue the line;
        // `help` itself is offered right after the first `help`
        let mut names: Vec<(String, bool)> = lvl.subs.iter().map(|s| (s.name.clone(), s.hide)).collect();
        if path.is_empty() && !lvl.subs.is_empty() {
            names.push(("help".into(), false));
        }
        let visible_match = names.iter().any(|(n, hid)| !hid && n.starts_with(partial));
        for c in &cand_strs {
            match names.iter().find(|(n, _)| n == c) {
                None => bad.push(("an offered subcommand does not exist at the level reached".into(), format!("prefix {:?} word {:?} candidate {:?}", prefix, partial, c))),
                Some((_, hid)) => {
                    if !c.starts_with(partial) {
                        bad.push(("a candidate does not extend the word under the cursor".into(), format!("word {:?} candidate {:?}", partial, c)));
                    }
                    if *hid && visible_match {
                        bad.push(("a hidden item is offered although something visible matches".into(), format!("prefix {:?} word {:?}: {:?} among {:?}", prefix, partial, c, cand_strs)));
                    }
                }
            }
        }
        for (n, hid) in &names {
            if !hid && n.starts_with(partial) && !cand_strs.contains(n) {
                bad.push(("a visible option or subcommand that extends the word is not offered".into(), format!("prefix {:?} word {:?}: {} missing from {:?}", prefix, partial, n, cand_strs)));
            }
        }
        return bad;
    }
    let all_sub_names: BTreeSet<String> = {
        fn walk(c: &CmdSpec, s: &mut BTreeSet<String>) {
            for x in &c.subs {
                s.insert(x.name.clone());
                s.extend(x.aliases.iter().cloned());
                s.extend(x.visible_aliases.iter().cloned());
                walk(x, s);
            }
        }
        let mut s = BTreeSet::new();
        walk(spec, &mut s);
        s.insert("help".into());
        s
    };
    // is the partial a cluster of known value-less shorts (possibly ending in a value-taking one)?
    let cluster: Option<(String, bool)> = if partial.starts_with('-') && !partial.starts_with("--") && partial.len() > 1 {
        let mut ends_value = false;
        let mut ok = true;
        for (i, ch) in partial[1..].chars().enumerate() {
            match d.shorts.iter().find(|s| s.0 == ch) {
                Some(s) => {
                    if s.3 {
                        ends_value = true;
                        if i + 2 != partial.chars().count() {
                            ok = false;
                        }
                    }
                }
                None => ok = false,
            }
        }
        if ok {
            Some((partial[1..].to_string(), ends_value))
        } else {
            None
        }
    } else {
        None
    };
    let mut any_visible = false;
    let mut hidden_offered: Vec<String> = vec![];
    for c in &cand_strs {
        let is_optish = c.starts_with('-');
        let is_sub = all_sub_names.contains(c);
        if !is_optish && !is_sub {
            // a value candidate (possible value); counts as a visible candidate
            any_visible = true;
            continue;
        }
        if !c.starts_with(partial) {
            bad.push(("a candidate does not extend the word under the cursor".into(), format!("word {:?} candidate {:?}", partial, c)));
            continue;
        }
        if is_optish {
            // what does it name at this level?
            let named: Option<(String, bool, bool)> = if let Some(body) = c.strip_prefix("--") {
                let (name, _val) = match body.split_once('=') {
                    Some((n, v)) => (n, Some(v)),
                    None => (body, None),
                };
                d.longs.iter().find(|l| l.0 == name).map(|l| (l.1.clone(), l.2, l.3))
            } else {
                // short cluster: every char must be a short of this level
                let chars: Vec<char> = c[1..].chars().collect();
                let mut last = None;
                let mut ok = !chars.is_empty();
                for (i, ch) in chars.iter().enumerate() {
                    match d.shorts.iter().find(|s| s.0 == *ch) {
                        Some(s) => {
                            last = Some((s.1.clone(), s.2, s.3));
                            if s.3 && i + 1 != chars.len() {
                                // rest is an attached value
                                break;
                            }
                        }
                        None => {
                            ok = false;
                            break;
                        }
                    }
                }
                if ok {
                    last
                } else {
                    None
                }
            };
            match named {
                None => bad.push(("an offered option does not exist at the level reached".into(), format!("prefix {:?} word {:?} candidate {:?}", prefix, partial, c))),
                Some((id, hidden, takes)) => {
                    if hidden {
                        hidden_offered.push(c.clone());
                    } else {
                        any_visible = true;
                    }
                    // the real parser must accept it as that argument
                    let mut line: Vec<Vec<u8>> = prefix.iter().map(|s| s.as_bytes().to_vec()).collect();
                    line.push(c.as_bytes().to_vec());
                    // does the candidate already carry its value (`--opt=v`, `-ov`)?
                    let carries_value = if c.starts_with("--") {
                        c.contains('=')
                    } else {
                        let chars: Vec<char> = c[1..].chars().collect();
                        let first_taking = chars.iter().position(|ch| d.shorts.iter().any(|s| s.0 == *ch && s.3));
                        first_taking.map(|i| i + 1 < chars.len()).unwrap_or(false)
                    };
                    if takes && !carries_value {
                        line.push(if id == "opt" { b"one".to_vec() } else { b"val".to_vec() });
                    }
                    match parse(cmd, spec, &line) {
                        Outcome::Ok(ob) => {
                            let lo = ob.at_depth(path.len());
                            let given = lo.and_then(|l| l.args.get(&id)).map(|a| a.source == Some(Src::Cli)).unwrap_or(false);
                            if !given && !id.starts_with('<') {
                                bad.push(("the real parser does not attribute an offered option to its argument".into(), format!("line {:?}: {} not given; matches {}", line.iter().map(|a| show(a)).collect::<Vec<_>>(), id, ob.show())));
                            }
                        }
                        Outcome::Err(e) => {
                            // the engine does not track which arguments were already given: a
                            // repeat of a non-repeatable argument is not what this clause is about
                            // (the trees declare no conflicts, so ArgumentConflict can only be a repeat)
                            let repeat = e.kind == "ArgumentConflict";
                            let cluster_has = |ch: char| !c.starts_with("--") && c.contains(ch);
                            let fine = repeat
                                || (e.kind == "DisplayHelp" && (id == "<help>" || cluster_has('h')))
                                || (e.kind == "DisplayVersion" && (id == "<version>" || cluster_has('V')));
                            if !fine {
                                bad.push(("the real parser rejects an offered option".into(), format!("line {:?}: {}", line.iter().map(|a| show(a)).collect::<Vec<_>>(), e.kind)));
                            }
                        }
                    }
                }
            }
        } else {
            match d.subs.iter().find(|s| &s.0 == c) {
                None => bad.push(("an offered subcommand does not exist at the level reached".into(), format!("prefix {:?} word {:?} candidate {:?}", prefix, partial, c))),
                Some((_, canon, hidden)) => {
                    if *hidden {
                        hidden_offered.push(c.clone());
                    } else {
                        any_visible = true;
                    }
                    let mut line: Vec<Vec<u8>> = prefix.iter().map(|s| s.as_bytes().to_vec()).collect();
                    line.push(c.as_bytes().to_vec());
                    match parse(cmd, spec, &line) {
                        Outcome::Ok(ob) => {
                            let chain = ob.chain();
                            if chain.get(path.len()) != Some(canon) {
                                bad.push(("the real parser does not dispatch an offered subcommand".into(), format!("line {:?}: chain {:?}", line.iter().map(|a| show(a)).collect::<Vec<_>>(), chain)));
                            }
                        }
                        Outcome::Err(e) => {
                            if !(canon == "help" && e.kind == "DisplayHelp") {
                                bad.push(("the real parser rejects an offered subcommand".into(), format!("line {:?}: {}", line.iter().map(|a| show(a)).collect::<Vec<_>>(), e.kind)));
                            }
                        }
                    }
                }
            }
        }
    }
    if any_visible && !hidden_offered.is_empty() {
        bad.push(("a hidden item is offered although something visible matches".into(), format!("word {:?}: hidden {:?} among {:?}", partial, hidden_offered, cand_strs)));
    }
    // coverage of visible items: an argument is represented by any of its visible spellings
    let mut missing: Vec<String> = vec![];
    if partial.is_empty() || partial == "-" || partial.starts_with("--") {
        let mut ids: Vec<&String> = d.longs.iter().filter(|l| !l.2).map(|l| &l.1).chain(d.shorts.iter().filter(|s| !s.2).map(|s| &s.1)).collect();
        ids.sort();
        ids.dedup();
        for id in ids {
            let mut spellings: Vec<String> = d.longs.iter().filter(|l| &l.1 == id && !l.2).map(|l| format!("--{}", l.0)).collect();
            if !partial.starts_with("--") {
                spellings.extend(d.shorts.iter().filter(|s| &s.1 == id && !s.2).map(|s| format!("-{}", s.0)));
            }
            let spellings: Vec<String> = spellings.into_iter().filter(|s| s.starts_with(partial)).collect();
            if !spellings.is_empty() && !spellings.iter().any(|s| cand_strs.iter().any(|c| c == s || c.starts_with(&format!("{}=", s)))) {
                missing.push(spellings[0].clone());
            }
        }
    }
    if let Some((flags, ends_value)) = &cluster {
        if !ends_value {
            for s in d.shorts.iter().filter(|s| !s.2) {
                let want = format!("-{}{}", flags, s.0);
                if !cand_strs.contains(&want) {
                    missing.push(want);
                }
            }
        }
    }
    if !partial.starts_with('-') {
        let mut canon: Vec<&String> = d.subs.iter().filter(|s| !s.2).map(|s| &s.1).collect();
        canon.sort();
        canon.dedup();
        for cn in canon {
            let spellings: Vec<&String> = d.subs.iter().filter(|s| &s.1 == cn && !s.2 && s.0.starts_with(partial)).map(|s| &s.0).collect();
            if !spellings.is_empty() && !spellings.iter().any(|s| cand_strs.contains(s)) {
                missing.push(spellings[0].clone());
            }
        }
    }
    if !missing.is_empty() {
        bad.push(("a visible option or subcommand that extends the word is not offered".into(), format!("prefix {:?} word {:?}: missing {:?}; offered {:?}", prefix, partial, missing, cand_strs)));
    }
    bad
}

fn recheck(case: &Value) -> Vec<Violation> {
    let Ok(spec) = CmdSpec::from_json(&case["spec"]) else { return vec![] };
    let Ok(cmd) = build_valid(&spec) else { return vec![] };
    let mut h = Hist::new();
    let bad: Vec<(String, String)> = if case["part"] == "b" {
        let prefix: Vec<String> = case["prefix"].as_array().map(|a| a.iter().map(|x| x.as_str().unwrap_or("").to_string()).collect()).unwrap_or_default();
        let path: Vec<String> = case["path"].as_array().map(|a| a.iter().map(|x| x.as_str().unwrap_or("").to_string()).collect()).unwrap_or_default();
        let partial = case["partial"].as_str().unwrap_or("").to_string();
        let pr: Vec<&str> = prefix.iter().map(|s| s.as_str()).collect();
        let pa: Vec<&str> = path.iter().map(|s| s.as_str()).collect();
        match catch(|| check_b(&spec, &cmd, &pr, &pa, &partial, &mut h)) {
            Ok(b) => b,
            Err(p) => vec![(p.key(), p.show())],
        }
    } else {
        let argv = unhex_argv(&case["argv_hex"]);
        let idx = case["index"].as_u64().unwrap_or(0) as usize;
        match run_complete(&cmd, &spec, &argv, idx) {
            Ok(_) => vec![],
            Err(p) => vec![(p.key(), p.show())],
        }
    };
    bad.into_iter().map(|(c, w)| Violation { cause: c, order: (0, 0), what: w, case: case.clone() }).collect()
}

fn main() {
    let cli = Cli::parse();
    install_silent_hook();
    fix_env();
    let tier = match &cli.mode {
        Mode::Replay(p) => run_replay(PROP, p, &recheck),
        Mode::Explore(t) => *t,
    };
    sup::supervise(PROP, &cli);
    let journal: &'static Journal = Box::leak(Box::new(if std::env::var_os("CLAPMC_CHILD").is_some() { Journal::create(PROP) } else { Journal::dummy() }));
    let single = sup::single_case(&cli);
    if single.is_none() {
        journal.start_watchdog("C18");
    }
    let rep = Report::new(PROP, tier, cli.seed);
    let plan: Vec<(usize, usize)> = match tier {
        Tier::Quick => vec![(0, 3), (1, 2), (2, 1)],
        Tier::Thorough => vec![(0, 3), (1, 3), (2, 2)],
    };
    let maxd = plan.iter().map(|p| p.0).max().unwrap();
    let blocks: Vec<(Vec<&'static str>, CmdSpec, usize)> = dev_configs(maxd)
        .into_iter()
        .filter(|(_, s)| !s.has(Setting::Multicall))
        .map(|(d, s)| {
            let l = plan.iter().find(|p| p.0 == d.len()).map(|p| p.1).unwrap_or(1);
            (d, s, l)
        })
        .collect();
    rep.rule("(a) block = dev(d) configuration accepted by the validity gate; case = (argv in A(cfg)^{<=L}, cursor index in 0..=len+1); the engine must return a list or the plain `no completion generated` error. (b) block = (tree, prefix); case = partial word (every prefix of every spelling of the level reached, short clusters, \"\", \"-\", \"--\"); candidate validity against the real parser, coverage of visible items, hidden rule. non-trivial = part-(b) cases in which the engine returned a candidate list that was judged");
    rep.set("bounds", json!({"a_plan_(deviations,max_argv_len)": plan, "a_configurations": blocks.len(), "b_trees": trees().len()}));
    rep.assume("multicall configurations are skipped in (a) (the engine documents no multicall support); value candidates (possible values) are not judged, only option- and subcommand-shaped candidates");
    rep.assume("(b) only uses prefixes that leave no option awaiting a value and contain no `--`, as the property states");

    if let Some((b, c)) = single {
        let (d, spec, l) = &blocks[b as usize];
        let Ok(cmd) = build_valid(spec) else { std::process::exit(0) };
        let alpha = alphabet(spec);
        let mut n = 0u64;
        let mut found: Option<(Vec<Vec<u8>>, usize)> = None;
        for_each_seq(alpha.len(), *l, |s| {
            for idx in 0..=s.len() + 2 {
                if n == c {
                    found = Some((s.iter().map(|i| alpha[*i].clone()).collect(), idx));
                }
                n += 1;
            }
        });
        let (argv, idx) = found.unwrap_or_default();
        sup::describe_case(PROP, &json!({"part": "a", "deviations": d, "spec": spec.to_json(), "argv_hex": hex_argv(&argv), "argv_shown": show_argv(&argv), "index": idx}));
        let r = run_complete(&cmd, spec, &argv, idx);
        std::process::exit(if r.is_ok() { 0 } else { 1 });
    }

    par_blocks(blocks.len(), |bi, tid| {
        let (d, spec, l) = &blocks[bi];
        let Ok(cmd) = build_valid(spec) else { return };
        let alpha = alphabet(spec);
        let mut h = Hist::new();
        let mut argv: Vec<Vec<u8>> = vec![];
        let mut n = 0u64;
        for_each_seq(alpha.len(), *l, |s| {
            argv.clear();
            argv.extend(s.iter().map(|i| alpha[*i].clone()));
            for idx in 0..=argv.len() + 2 {
                journal.begin(tid, bi as u64, n);
                let r = run_complete(&cmd, spec, &argv, idx);
                journal.end(tid);
                n += 1;
                h.evaluations += 1;
                h.states += 1;
                h.transitions += 1;
                match r {
                    Ok(Ok(v)) => h.bump(if v.is_empty() { "a/empty-list" } else { "a/candidates" }),
                    Ok(Err(e)) => {
                        if e == "no completion generated" {
                            h.bump("a/no-completion");
                        } else {
                            rep.violation(Violation { cause: format!("engine error other than `no completion generated`: {}", e), order: (d.len() as u64, bi as u64), what: format!("deviations {:?} argv {:?} index {}", d, argv.iter().map(|a| show(a)).collect::<Vec<_>>(), idx), case: json!({"part": "a", "deviations": d, "spec": spec.to_json(), "argv_hex": hex_argv(&argv), "index": idx}) });
                        }
                    }
                    Err(p) => rep.violation(Violation {
                        cause: p.key(),
                        order: ((d.len() as u64) << 32 | bi as u64, n),
                        what: format!("deviations {:?} argv {:?} cursor index {}: {}", d, argv.iter().map(|a| show(a)).collect::<Vec<_>>(), idx, p.show()),
                        case: json!({"part": "a", "deviations": d, "spec": spec.to_json(), "argv_hex": hex_argv(&argv), "argv_shown": show_argv(&argv), "index": idx}),
                    }),
                }
            }
        });
        if bi == 0 || bi == blocks.len() - 1 {
            rep.sample(json!({"part": "a", "deviations": d, "max_argv_len": l, "last_argv": show_argv(&argv)}));
        }
        rep.merge(&h);
    });

    // (b)
    let ts = trees();
    let mut bb: Vec<(usize, usize)> = vec![];
    for (ti, (_, spec)) in ts.iter().enumerate() {
        for pi in 0..prefixes(spec).len() {
            bb.push((ti, pi));
        }
    }
    par_blocks(bb.len(), |bi, _| {
        let (ti, pi) = bb[bi];
        let (tname, spec) = &ts[ti];
        let cmd = match build_valid(spec) {
            Ok(c) => c,
            Err(p) => rep.machinery(&format!("completion tree rejected by the gate: {}", p.show())),
        };
        let (prefix, path) = prefixes(spec)[pi].clone();
        let d = describe(level_at(spec, &path));
        let mut h = Hist::new();
        for (wi, w) in partials(&d).iter().enumerate() {
            h.evaluations += 1;
            h.states += 1;
            h.transitions += 1;
            h.validated += 1;
            let mk = || json!({"part": "b", "tree": tname, "spec": spec.to_json(), "prefix": prefix, "path": path, "partial": w});
            match catch(|| check_b(spec, &cmd, &prefix, &path, w, &mut h)) {
                Ok(bad) => {
                    h.bump(if bad.is_empty() { "b/ok" } else { "b/VIOLATION" });
                    for (c, what) in bad {
                        rep.violation(Violation { cause: c.clone(), order: (1 << 50 | bi as u64, wi as u64), what: format!("[{}] prefix {:?} word {:?}: {} ({})", tname, prefix, w, c, what), case: mk() });
                    }
                }
                Err(p) => rep.violation(Violation { cause: p.key(), order: (1 << 50 | bi as u64, wi as u64), what: format!("[{}] prefix {:?} word {:?}: {}", tname, prefix, w, p.show()), case: mk() }),
            }
        }
        if bi == bb.len() - 1 {
            rep.sample(json!({"part": "b", "tree": tname, "prefix": prefix, "partial_words": partials(&d).len()}));
        }
        rep.merge(&h);
    });
    rep.finish(&recheck);
}
