//! C15 — derived parsers are exactly their command plus field extraction, and round-trip.
//!
//! Corpus: one derived type per cell of (field shape x value type x naming x extra attribute) plus
//! structural types (flatten, optional flatten, subcommand enums with unit/tuple/struct/nested/
//! external variants, optional subcommand, flattened subcommand enum). Every cell also carries,
//! written *without* the derive macro: the per-shape extraction (R11), a small value domain and a
//! printer to canonical argv.
//! Checks per type: parse ok <=> command parse ok, for every argv in A^{<=L}; extracted value ==
//! R11(matches); parse(print(v)) == v for every domain value; BFS over update histories: an update
//! changes exactly the fields whose argument has command-line source in the update matches;
//! value-enum names and aliases map back to their variants.

use clap::parser::ValueSource;
use clap::{ArgAction, ArgMatches, Args, CommandFactory, FromArgMatches, Parser, Subcommand, ValueEnum};
use mccore::report::run_replay;
use mccore::*;
use serde_json::{json, Value};
use std::ffi::OsString;

const PROP: &str = "C15";

#[derive(ValueEnum, Clone, Debug, PartialEq, Eq)]
enum Mode {
    Fast,
    #[value(alias = "quick", name = "slow-mode")]
    Slow,
    #[value(skip)]
    #[allow(dead_code)]
    Secret,
}

/// several alias attributes on one value, in both orders (`alias` then `aliases`, `aliases` then `alias`)
#[derive(ValueEnum, Clone, Debug, PartialEq, Eq)]
enum Speed {
    #[value(alias = "quick", aliases = ["f", "speedy"])]
    Fast,
    #[value(aliases = ["s", "lazy"], alias = "crawl", alias = "idle")]
    Slow,
    #[value(name = "mid", aliases = ["m"], aliases = ["medium", "half", "MID", "Half", "M"])]
    Middle,
}

/// a hidden value between visible ones
#[derive(ValueEnum, Clone, Debug, PartialEq, Eq)]
enum Level {
    Low,
    #[value(hide = true, alias = "mid")]
    Medium,
    High,
    #[value(hide = true)]
    Extreme,
    #[value(name = "max")]
    Maximum,
}
const LEVEL_DECLARED: &[(&str, Level)] = &[("low", Level::Low), ("medium", Level::Medium), ("mid", Level::Medium), ("high", Level::High), ("extreme", Level::Extreme), ("max", Level::Maximum)];

#[derive(Parser, Debug)]
#[command(name = "prog")]
struct LevelCli {
    #[arg(long, value_enum, default_value_t = Level::High)]
    level: Level,
    #[arg(long, value_parser = clap::value_parser!(Level))]
    other: Option<Level>,
}

/// every spelling the declarations above give (written out by hand, not read back from clap)
const SPEED_DECLARED: &[(&str, Speed)] = &[
    ("fast", Speed::Fast),
    ("quick", Speed::Fast),
    ("f", Speed::Fast),
    ("speedy", Speed::Fast),
    ("slow", Speed::Slow),
    ("s", Speed::Slow),
    ("lazy", Speed::Slow),
    ("crawl", Speed::Slow),
    ("idle", Speed::Slow),
    ("mid", Speed::Middle),
    ("m", Speed::Middle),
    ("medium", Speed::Middle),
    ("half", Speed::Middle),
    // spellings that differ from an earlier one only by case are spellings of their own
    ("MID", Speed::Middle),
    ("Half", Speed::Middle),
    ("M", Speed::Middle),
];
const MODE_DECLARED: &[(&str, Mode)] = &[("fast", Mode::Fast), ("slow-mode", Mode::Slow), ("quick", Mode::Slow)];

#[derive(Parser, Debug)]
#[command(name = "prog")]
struct SpeedCli {
    #[arg(long, value_enum)]
    speed: Speed,
}

trait Cell: Sync + Send {
    fn name(&self) -> &'static str;
    fn command(&self) -> clap::Command;
    fn command_for_update(&self) -> clap::Command;
    /// Debug rendering of the parsed value, or the error kind
    fn parse(&self, argv: &[OsString]) -> Result<String, String>;
    /// Debug rendering of the value R11 extracts from successful matches
    fn model(&self, m: &ArgMatches) -> String;
    /// (Debug rendering, canonical argv) for every value of the domain
    fn domain(&self) -> Vec<(String, Vec<String>)>;
    /// start from the value printed as `start`, update with `upd`
    fn update(&self, start: &[String], upd: &[OsString]) -> Result<String, String>;
    /// expected result of that update according to the overlay model
    fn update_model(&self, start: &[String], m: &ArgMatches) -> String;
    fn alphabet(&self) -> Vec<&'static str>;
}

fn cli(m: &ArgMatches, id: &str) -> bool {
    m.try_contains_id(id).unwrap_or(false) && m.value_source(id) == Some(ValueSource::CommandLine)
}

fn kind(e: &clap::Error) -> String {
    format!("{:?}", e.kind())
}

fn full(argv: &[String]) -> Vec<OsString> {
    std::iter::once(OsString::from("prog")).chain(argv.iter().map(OsString::from)).collect()
}

const FIELD_ALPHA: [&str; 16] = ["--f", "--f=v", "--f=7", "--f=fast", "-f", "v", "7", "fast", "--other", "o", "--f=a,b", "--", "-x", "300", "--f=true", "-ff"];

/// One-field cell: struct { f: $fty, other: Option<String> }.
macro_rules! cell {
    ($cname:ident, $sname:ident, $fty:ty, [$($attr:tt)*], extract: $extract:expr, domain: $domain:expr, print: $print:expr) => {
        #[derive(Parser, Debug, PartialEq, Clone)]
        #[command(name = "prog")]
        struct $sname {
            #[arg($($attr)*)]
            f: $fty,
            #[arg(long)]
            other: Option<String>,
        }
        struct $cname;
        impl $cname {
            fn from_model(m: &ArgMatches) -> $sname {
                let ex: fn(&ArgMatches) -> $fty = $extract;
                $sname { f: ex(m), other: m.get_one::<String>("other").cloned() }
            }
            fn values() -> Vec<$sname> {
                let d: Vec<$fty> = $domain;
                let mut out = vec![];
                for f in d {
                    for other in [None, Some("o".to_string())] {
                        out.push($sname { f: f.clone(), other });
                    }
                }
                out
            }
            fn print(v: &$sname) -> Vec<String> {
                let p: fn(&$fty) -> Vec<String> = $print;
                let mut a = p(&v.f);
                if let Some(o) = &v.other {
                    // options go before positional values in canonical form
                    a.insert(0, o.clone());
                    a.insert(0, "--other".into());
                }
                a
            }
        }
        impl Cell for $cname {
            fn name(&self) -> &'static str { stringify!($sname) }
            fn command(&self) -> clap::Command { <$sname as CommandFactory>::command() }
            fn command_for_update(&self) -> clap::Command { <$sname as CommandFactory>::command_for_update() }
            fn parse(&self, argv: &[OsString]) -> Result<String, String> {
                <$sname as Parser>::try_parse_from(argv).map(|v| format!("{:?}", v)).map_err(|e| kind(&e))
            }
            fn model(&self, m: &ArgMatches) -> String { format!("{:?}", Self::from_model(m)) }
            fn domain(&self) -> Vec<(String, Vec<String>)> {
                Self::values().iter().map(|v| (format!("{:?}", v), Self::print(v))).collect()
            }
            fn update(&self, start: &[String], upd: &[OsString]) -> Result<String, String> {
                let mut v = <$sname as Parser>::try_parse_from(full(start)).map_err(|e| format!("start value does not parse: {}", kind(&e)))?;
                <$sname as Parser>::try_update_from(&mut v, upd).map_err(|e| kind(&e))?;
                Ok(format!("{:?}", v))
            }
            fn update_model(&self, start: &[String], m: &ArgMatches) -> String {
                let mut v = <$sname as Parser>::try_parse_from(full(start)).expect("start parses");
                let ex: fn(&ArgMatches) -> $fty = $extract;
                if cli(m, "f") { v.f = ex(m); }
                if cli(m, "other") { v.other = m.get_one::<String>("other").cloned(); }
                format!("{:?}", v)
            }
            fn alphabet(&self) -> Vec<&'static str> { FIELD_ALPHA.to_vec() }
        }
    };
}

fn s(x: &str) -> String {
    x.to_string()
}

// ---- flags and counters
cell!(CBool, SBool, bool, [long, short], extract: |m| m.get_flag("f"), domain: vec![false, true], print: |v| if *v { vec![s("--f")] } else { vec![] });
cell!(CCount, SCount, u8, [long, short, action = ArgAction::Count], extract: |m| m.get_count("f"), domain: vec![0, 1, 2], print: |v| (0..*v).map(|_| s("-f")).collect());
// ---- required T
cell!(CReqStr, SReqStr, String, [long], extract: |m| m.get_one::<String>("f").cloned().unwrap(), domain: vec![s("v"), s("")], print: |v| vec![format!("--f={}", v)]);
cell!(CReqU8, SReqU8, u8, [long, short], extract: |m| *m.get_one::<u8>("f").unwrap(), domain: vec![0, 7, 255], print: |v| vec![s("-f"), v.to_string()]);
cell!(CReqU32, SReqU32, u32, [long], extract: |m| *m.get_one::<u32>("f").unwrap(), domain: vec![0, u32::MAX - 1, u32::MAX], print: |v| vec![format!("--f={}", v)]);
cell!(CReqEnum, SReqEnum, Mode, [long, value_enum], extract: |m| m.get_one::<Mode>("f").cloned().unwrap(), domain: vec![Mode::Fast, Mode::Slow], print: |v| vec![s("--f"), v.to_possible_value().unwrap().get_name().to_string()]);
cell!(CReqPos, SReqPos, String, [], extract: |m| m.get_one::<String>("f").cloned().unwrap(), domain: vec![s("v"), s("7")], print: |v| vec![v.clone()]);
// ---- default_value_t
cell!(CDefU8, SDefU8, u8, [long, default_value_t = 5], extract: |m| *m.get_one::<u8>("f").unwrap(), domain: vec![5, 7], print: |v| vec![format!("--f={}", v)]);
cell!(CDefEnum, SDefEnum, Mode, [long, value_enum, default_value_t = Mode::Slow], extract: |m| m.get_one::<Mode>("f").cloned().unwrap(), domain: vec![Mode::Fast, Mode::Slow], print: |v| vec![format!("--f={}", v.to_possible_value().unwrap().get_name())]);
cell!(CDefStr, SDefStr, String, [long, default_value = "dflt"], extract: |m| m.get_one::<String>("f").cloned().unwrap(), domain: vec![s("dflt"), s("v")], print: |v| vec![format!("--f={}", v)]);
// ---- Option<T>
cell!(COptStr, SOptStr, Option<String>, [long], extract: |m| m.get_one::<String>("f").cloned(), domain: vec![None, Some(s("v"))], print: |v| v.iter().map(|x| format!("--f={}", x)).collect());
cell!(COptU8, SOptU8, Option<u8>, [long, short], extract: |m| m.get_one::<u8>("f").copied(), domain: vec![None, Some(7)], print: |v| v.iter().flat_map(|x| vec![s("-f"), x.to_string()]).collect());
cell!(COptEnum, SOptEnum, Option<Mode>, [long, value_enum, ignore_case = true], extract: |m| m.get_one::<Mode>("f").cloned(), domain: vec![None, Some(Mode::Fast), Some(Mode::Slow)], print: |v| v.iter().map(|x| format!("--f={}", x.to_possible_value().unwrap().get_name())).collect());
cell!(COptPos, SOptPos, Option<String>, [], extract: |m| m.get_one::<String>("f").cloned(), domain: vec![None, Some(s("v"))], print: |v| v.iter().cloned().collect());
cell!(COptEnv, SOptEnv, Option<String>, [long, env = "CLAPMC_UNSET"], extract: |m| m.get_one::<String>("f").cloned(), domain: vec![None, Some(s("v"))], print: |v| v.iter().map(|x| format!("--f={}", x)).collect());
// ---- Option<Option<T>>
cell!(COptOptStr, SOptOptStr, Option<Option<String>>, [long], extract: |m| if m.contains_id("f") { Some(m.get_one::<String>("f").cloned()) } else { None }, domain: vec![None, Some(None), Some(Some(s("v")))], print: |v| match v { None => vec![], Some(None) => vec![s("--f")], Some(Some(x)) => vec![format!("--f={}", x)] });
cell!(COptOptU8, SOptOptU8, Option<Option<u8>>, [long, short], extract: |m| if m.contains_id("f") { Some(m.get_one::<u8>("f").copied()) } else { None }, domain: vec![None, Some(None), Some(Some(7))], print: |v| match v { None => vec![], Some(None) => vec![s("-f")], Some(Some(x)) => vec![format!("--f={}", x)] });
// ---- Vec<T>
cell!(CVecStr, SVecStr, Vec<String>, [long], extract: |m| m.get_many::<String>("f").map(|v| v.cloned().collect()).unwrap_or_default(), domain: vec![vec![], vec![s("v")], vec![s("v"), s("w")]], print: |v| v.iter().map(|x| format!("--f={}", x)).collect());
cell!(CVecU8, SVecU8, Vec<u8>, [long, short, value_delimiter = ','], extract: |m| m.get_many::<u8>("f").map(|v| v.copied().collect()).unwrap_or_default(), domain: vec![vec![], vec![7], vec![7, 8]], print: |v| if v.is_empty() { vec![] } else { vec![format!("--f={}", v.iter().map(|x| x.to_string()).collect::<Vec<_>>().join(","))] });
cell!(CVecPos, SVecPos, Vec<String>, [], extract: |m| m.get_many::<String>("f").map(|v| v.cloned().collect()).unwrap_or_default(), domain: vec![vec![], vec![s("v")], vec![s("v"), s("7")]], print: |v| v.clone());
cell!(CVecN, SVecN, Vec<String>, [long, num_args = 1..=2], extract: |m| m.get_many::<String>("f").map(|v| v.cloned().collect()).unwrap_or_default(), domain: vec![vec![], vec![s("v")], vec![s("v"), s("7")]], print: |v| if v.is_empty() { vec![] } else { let mut a = vec![s("--f")]; a.extend(v.iter().cloned()); a });
cell!(CVecEnum, SVecEnum, Vec<Mode>, [long, value_enum], extract: |m| m.get_many::<Mode>("f").map(|v| v.cloned().collect()).unwrap_or_default(), domain: vec![vec![], vec![Mode::Fast, Mode::Slow]], print: |v| v.iter().map(|x| format!("--f={}", x.to_possible_value().unwrap().get_name())).collect());
// ---- Option<Vec<T>>
cell!(COptVecStr, SOptVecStr, Option<Vec<String>>, [long], extract: |m| m.get_many::<String>("f").map(|v| v.cloned().collect()), domain: vec![None, Some(vec![s("v")]), Some(vec![s("v"), s("w")])], print: |v| v.iter().flatten().map(|x| format!("--f={}", x)).collect());
cell!(COptVecN0, SOptVecN0, Option<Vec<String>>, [long, num_args = 0..], extract: |m| if m.contains_id("f") { Some(m.get_many::<String>("f").map(|v| v.cloned().collect()).unwrap_or_default()) } else { None }, domain: vec![None, Some(vec![]), Some(vec![s("v")])], print: |v| match v { None => vec![], Some(x) => { let mut a = vec![s("--f")]; a.extend(x.iter().cloned()); a } });
// ---- nested vectors (Vec<Vec<T>>) are only recognised by the derive with `unstable-v5`: not compiled in
// ---- extras
cell!(CGlobal, SGlobal, Option<String>, [long, global = true], extract: |m| m.get_one::<String>("f").cloned(), domain: vec![None, Some(s("v"))], print: |v| v.iter().map(|x| format!("--f={}", x)).collect());
cell!(CDefMissing, SDefMissing, Option<String>, [long, num_args = 0..=1, default_missing_value = "dm"], extract: |m| m.get_one::<String>("f").cloned(), domain: vec![None, Some(s("dm")), Some(s("v"))], print: |v| v.iter().map(|x| format!("--f={}", x)).collect());

// ---- more action / default variants
cell!(CSetFalse, SSetFalse, bool, [long, action = ArgAction::SetFalse], extract: |m| m.get_flag("f"), domain: vec![true, false], print: |v| if *v { vec![] } else { vec![s("--f")] });
cell!(CDefVals, SDefVals, Vec<u8>, [long, default_values_t = vec![1u8, 2]], extract: |m| m.get_many::<u8>("f").map(|v| v.copied().collect()).unwrap_or_default(), domain: vec![vec![1, 2], vec![7]], print: |v| v.iter().map(|x| format!("--f={}", x)).collect());
cell!(CReqVec, SReqVec, Vec<String>, [long, required = true], extract: |m| m.get_many::<String>("f").map(|v| v.cloned().collect()).unwrap_or_default(), domain: vec![vec![s("v")], vec![s("v"), s("w")]], print: |v| v.iter().map(|x| format!("--f={}", x)).collect());
cell!(COptBool, SOptBool, Option<bool>, [long], extract: |m| m.get_one::<bool>("f").copied(), domain: vec![None, Some(true), Some(false)], print: |v| v.iter().map(|x| format!("--f={}", x)).collect());
cell!(CShortOnly, SShortOnly, Option<String>, [short], extract: |m| m.get_one::<String>("f").cloned(), domain: vec![None, Some(s("v"))], print: |v| v.iter().flat_map(|x| vec![s("-f"), x.clone()]).collect());
cell!(CReqPosVec, SReqPosVec, Vec<String>, [required = true], extract: |m| m.get_many::<String>("f").map(|v| v.cloned().collect()).unwrap_or_default(), domain: vec![vec![s("v")], vec![s("v"), s("7")]], print: |v| v.clone());
// scalar shapes whose argument can hold several values: the field is the first value (get_one)
cell!(CScalarAppend, SScalarAppend, Option<String>, [long, action = ArgAction::Append], extract: |m| m.get_one::<String>("f").cloned(), domain: vec![None, Some(s("v"))], print: |v| v.iter().map(|x| format!("--f={}", x)).collect());
cell!(CScalarN, SScalarN, Option<String>, [long, num_args = 1..=2], extract: |m| m.get_one::<String>("f").cloned(), domain: vec![None, Some(s("v"))], print: |v| v.iter().map(|x| format!("--f={}", x)).collect());
cell!(CReqScalarN, SReqScalarN, String, [long, num_args = 1..=2], extract: |m| m.get_one::<String>("f").cloned().unwrap(), domain: vec![s("7"), s("v")], print: |v| vec![format!("--f={}", v)]);
cell!(CCountU8Def, SCountU8Def, u8, [short, action = ArgAction::Count, default_value_t = 0], extract: |m| m.get_count("f"), domain: vec![0, 3], print: |v| if *v == 0 { vec![] } else { vec![format!("-{}", "f".repeat(*v as usize))] });

// ---------------------------------------------------------------------------------------------
// structural types

#[derive(Args, Debug, PartialEq, Clone)]
struct Inner {
    #[arg(long)]
    name: Option<String>,
    #[arg(long)]
    force: bool,
}

#[derive(Parser, Debug, PartialEq, Clone)]
#[command(name = "prog")]
struct SFlatten {
    #[command(flatten)]
    inner: Inner,
    #[arg(long)]
    other: Option<String>,
}

#[derive(Parser, Debug, PartialEq, Clone)]
#[command(name = "prog")]
struct SOptFlatten {
    #[command(flatten)]
    inner: Option<Inner>,
    #[arg(long)]
    other: Option<String>,
}

#[derive(Subcommand, Debug, PartialEq, Clone)]
enum Remote {
    Add { name: String },
    Remove {
        #[arg(long)]
        force: bool,
    },
}

#[derive(Subcommand, Debug, PartialEq, Clone)]
enum Cmd {
    Status,
    Push(Inner),
    Tag {
        #[arg(long)]
        name: Option<String>,
    },
    #[command(subcommand)]
    Remote(Remote),
    #[command(external_subcommand)]
    External(Vec<String>),
}

#[derive(Parser, Debug, PartialEq, Clone)]
#[command(name = "prog")]
struct SSub {
    #[arg(long)]
    other: Option<String>,
    #[command(subcommand)]
    cmd: Cmd,
}

#[derive(Parser, Debug, PartialEq, Clone)]
#[command(name = "prog")]
struct SOptSub {
    #[arg(long)]
    other: Option<String>,
    #[command(subcommand)]
    cmd: Option<Cmd>,
}

#[derive(Subcommand, Debug, PartialEq, Clone)]
enum Outer {
    #[command(flatten)]
    Base(Cmd2),
    Extra,
}

#[derive(Subcommand, Debug, PartialEq, Clone)]
enum Cmd2 {
    Status,
    #[command(subcommand)]
    Remote(Remote),
}

#[derive(Parser, Debug, PartialEq, Clone)]
#[command(name = "prog")]
struct SFlatSub {
    #[command(subcommand)]
    cmd: Option<Outer>,
}

const SUB_ALPHA: [&str; 14] = ["status", "push", "tag", "remote", "add", "remove", "--name", "n", "--force", "--other", "o", "ext", "extra", "--name=n"];

fn model_inner(m: &ArgMatches) -> Inner {
    Inner { name: m.get_one::<String>("name").cloned(), force: m.get_flag("force") }
}

fn model_remote(m: &ArgMatches) -> Option<Remote> {
    match m.subcommand()? {
        ("add", s) => Some(Remote::Add { name: s.get_one::<String>("name").cloned()? }),
        ("remove", s) => Some(Remote::Remove { force: s.get_flag("force") }),
        _ => None,
    }
}

fn model_cmd(m: &ArgMatches) -> Option<Cmd> {
    match m.subcommand()? {
        ("status", _) => Some(Cmd::Status),
        ("push", s) => Some(Cmd::Push(model_inner(s))),
        ("tag", s) => Some(Cmd::Tag { name: s.get_one::<String>("name").cloned() }),
        ("remote", s) => model_remote(s).map(Cmd::Remote),
        (ext, s) => {
            let mut v = vec![ext.to_string()];
            v.extend(s.get_many::<String>("").into_iter().flatten().cloned());
            Some(Cmd::External(v))
        }
    }
}

/// Overlay model for a subcommand value: the same variant is updated in place (only the fields
/// named on the update line change), a different variant replaces the value.
fn overlay_remote(cur: &Remote, m: &ArgMatches) -> Option<Remote> {
    match (cur, m.subcommand()?) {
        (Remote::Add { name }, ("add", s)) => Some(Remote::Add { name: if cli(s, "name") { s.get_one::<String>("name").cloned()? } else { name.clone() } }),
        (Remote::Remove { force }, ("remove", s)) => Some(Remote::Remove { force: if cli(s, "force") { s.get_flag("force") } else { *force } }),
        _ => model_remote(m),
    }
}

fn overlay_inner(cur: &Inner, s: &ArgMatches) -> Inner {
    Inner { name: if cli(s, "name") { s.get_one::<String>("name").cloned() } else { cur.name.clone() }, force: if cli(s, "force") { s.get_flag("force") } else { cur.force } }
}

fn overlay_cmd(cur: &Cmd, m: &ArgMatches) -> Option<Cmd> {
    match (cur, m.subcommand()?) {
        (Cmd::Status, ("status", _)) => Some(Cmd::Status),
        (Cmd::Push(i), ("push", s)) => Some(Cmd::Push(overlay_inner(i, s))),
        (Cmd::Tag { name }, ("tag", s)) => Some(Cmd::Tag { name: if cli(s, "name") { s.get_one::<String>("name").cloned() } else { name.clone() } }),
        (Cmd::Remote(r), ("remote", s)) => overlay_remote(r, s).map(Cmd::Remote),
        _ => model_cmd(m),
    }
}

fn overlay_outer(cur: &Outer, m: &ArgMatches) -> Option<Outer> {
    match (cur, m.subcommand()?) {
        (Outer::Base(Cmd2::Remote(r)), ("remote", s)) => overlay_remote(r, s).map(|r| Outer::Base(Cmd2::Remote(r))),
        _ => model_outer(m),
    }
}

fn model_outer(m: &ArgMatches) -> Option<Outer> {
    match m.subcommand()? {
        ("status", _) => Some(Outer::Base(Cmd2::Status)),
        ("remote", s) => model_remote(s).map(|r| Outer::Base(Cmd2::Remote(r))),
        ("extra", _) => Some(Outer::Extra),
        _ => None,
    }
}

fn print_remote(r: &Remote) -> Vec<String> {
    match r {
        Remote::Add { name } => vec![s("add"), name.clone()],
        Remote::Remove { force } => {
            let mut a = vec![s("remove")];
            if *force {
                a.push(s("--force"));
            }
            a
        }
    }
}

fn print_inner(i: &Inner) -> Vec<String> {
    let mut a = vec![];
    if let Some(n) = &i.name {
        a.push(format!("--name={}", n));
    }
    if i.force {
        a.push(s("--force"));
    }
    a
}

fn print_cmd(c: &Cmd) -> Vec<String> {
    match c {
        Cmd::Status => vec![s("status")],
        Cmd::Push(i) => {
            let mut a = vec![s("push")];
            a.extend(print_inner(i));
            a
        }
        Cmd::Tag { name } => {
            let mut a = vec![s("tag")];
            if let Some(n) = name {
                a.push(format!("--name={}", n));
            }
            a
        }
        Cmd::Remote(r) => {
            let mut a = vec![s("remote")];
            a.extend(print_remote(r));
            a
        }
        Cmd::External(v) => v.clone(),
    }
}

fn cmd_domain() -> Vec<Cmd> {
    vec![
        Cmd::Status,
        Cmd::Push(Inner { name: None, force: false }),
        Cmd::Push(Inner { name: Some(s("n")), force: true }),
        Cmd::Tag { name: None },
        Cmd::Tag { name: Some(s("n")) },
        Cmd::Remote(Remote::Add { name: s("origin") }),
        Cmd::Remote(Remote::Remove { force: true }),
        Cmd::External(vec![s("ext"), s("x"), s("--y")]),
    ]
}

/// Structural cell: the value model is a closure from matches to Option<value> (None = the model
/// cannot build a value, i.e. the derive is expected to fail too).
macro_rules! scell {
    ($cname:ident, $sname:ident, model: $model:expr, domain: $domain:expr, print: $print:expr, update_model: $um:expr) => {
        struct $cname;
        impl Cell for $cname {
            fn name(&self) -> &'static str { stringify!($sname) }
            fn command(&self) -> clap::Command { <$sname as CommandFactory>::command() }
            fn command_for_update(&self) -> clap::Command { <$sname as CommandFactory>::command_for_update() }
            fn parse(&self, argv: &[OsString]) -> Result<String, String> {
                <$sname as Parser>::try_parse_from(argv).map(|v| format!("{:?}", v)).map_err(|e| kind(&e))
            }
            fn model(&self, m: &ArgMatches) -> String {
                let f: fn(&ArgMatches) -> Option<$sname> = $model;
                match f(m) { Some(v) => format!("{:?}", v), None => "<model: no value>".into() }
            }
            fn domain(&self) -> Vec<(String, Vec<String>)> {
                let d: Vec<$sname> = $domain;
                let p: fn(&$sname) -> Vec<String> = $print;
                d.iter().map(|v| (format!("{:?}", v), p(v))).collect()
            }
            fn update(&self, start: &[String], upd: &[OsString]) -> Result<String, String> {
                let mut v = <$sname as Parser>::try_parse_from(full(start)).map_err(|e| format!("start value does not parse: {}", kind(&e)))?;
                <$sname as Parser>::try_update_from(&mut v, upd).map_err(|e| kind(&e))?;
                Ok(format!("{:?}", v))
            }
            fn update_model(&self, start: &[String], m: &ArgMatches) -> String {
                let mut v = <$sname as Parser>::try_parse_from(full(start)).expect("start parses");
                let f: fn(&mut $sname, &ArgMatches) = $um;
                f(&mut v, m);
                format!("{:?}", v)
            }
            fn alphabet(&self) -> Vec<&'static str> { SUB_ALPHA.to_vec() }
        }
    };
}

scell!(CFlatten, SFlatten,
    model: |m| Some(SFlatten { inner: model_inner(m), other: m.get_one::<String>("other").cloned() }),
    domain: vec![SFlatten { inner: Inner { name: None, force: false }, other: None }, SFlatten { inner: Inner { name: Some(s("n")), force: true }, other: Some(s("o")) }],
    print: |v| { let mut a = print_inner(&v.inner); if let Some(o) = &v.other { a.push(format!("--other={}", o)); } a },
    update_model: |v, m| { if cli(m, "name") { v.inner.name = m.get_one::<String>("name").cloned(); } if cli(m, "force") { v.inner.force = m.get_flag("force"); } if cli(m, "other") { v.other = m.get_one::<String>("other").cloned(); } });

// a flattened struct with a *required* field, plain and boxed: the update command must not require it
#[derive(Args, Debug, PartialEq, Clone)]
struct InnerReq {
    #[arg(long)]
    name: String,
}

#[derive(Parser, Debug, PartialEq, Clone)]
#[command(name = "prog")]
struct SReqFlatten {
    #[command(flatten)]
    inner: InnerReq,
    #[arg(long)]
    other: Option<String>,
}

#[derive(Parser, Debug, PartialEq, Clone)]
#[command(name = "prog")]
struct SBoxFlatten {
    #[command(flatten)]
    inner: Box<InnerReq>,
    #[arg(long)]
    other: Option<String>,
}

scell!(CReqFlatten, SReqFlatten,
    model: |m| Some(SReqFlatten { inner: InnerReq { name: m.get_one::<String>("name").cloned()? }, other: m.get_one::<String>("other").cloned() }),
    domain: vec![SReqFlatten { inner: InnerReq { name: s("n") }, other: None }, SReqFlatten { inner: InnerReq { name: s("n") }, other: Some(s("o")) }],
    print: |v| { let mut a = vec![format!("--name={}", v.inner.name)]; if let Some(o) = &v.other { a.push(format!("--other={}", o)); } a },
    update_model: |v, m| { if cli(m, "name") { if let Some(n) = m.get_one::<String>("name") { v.inner.name = n.clone(); } } if cli(m, "other") { v.other = m.get_one::<String>("other").cloned(); } });

scell!(CBoxFlatten, SBoxFlatten,
    model: |m| Some(SBoxFlatten { inner: Box::new(InnerReq { name: m.get_one::<String>("name").cloned()? }), other: m.get_one::<String>("other").cloned() }),
    domain: vec![SBoxFlatten { inner: Box::new(InnerReq { name: s("n") }), other: None }, SBoxFlatten { inner: Box::new(InnerReq { name: s("n") }), other: Some(s("o")) }],
    print: |v| { let mut a = vec![format!("--name={}", v.inner.name)]; if let Some(o) = &v.other { a.push(format!("--other={}", o)); } a },
    update_model: |v, m| { if cli(m, "name") { if let Some(n) = m.get_one::<String>("name") { v.inner.name = n.clone(); } } if cli(m, "other") { v.other = m.get_one::<String>("other").cloned(); } });

// bare `short`: the flag is the first character of the *case-converted* field name
#[derive(Parser, Debug, PartialEq, Clone)]
#[command(name = "prog")]
#[allow(non_snake_case, uncommon_codepoints)]
struct SShortNames {
    #[arg(short)]
    _quiet: bool,
    #[arg(short, long)]
    über: bool,
    #[arg(long)]
    other: Option<String>,
}

#[derive(Parser, Debug, PartialEq, Clone)]
#[command(name = "prog", rename_all = "SCREAMING_SNAKE_CASE")]
#[allow(non_snake_case, uncommon_codepoints)]
struct SShortNamesUpper {
    #[arg(short, long)]
    über: bool,
    #[arg(long)]
    other: Option<String>,
}

scell!(CShortNames, SShortNames,
    model: |m| Some(SShortNames { _quiet: m.get_flag("_quiet"), über: m.get_flag("über"), other: m.get_one::<String>("other").cloned() }),
    domain: vec![SShortNames { _quiet: false, über: false, other: None }, SShortNames { _quiet: true, über: false, other: None }, SShortNames { _quiet: true, über: true, other: Some(s("o")) }],
    print: |v| { let mut a = vec![]; if v._quiet { a.push(s("-q")); } if v.über { a.push(s("-ü")); } if let Some(o) = &v.other { a.push(format!("--other={}", o)); } a },
    update_model: |v, m| { if cli(m, "_quiet") { v._quiet = m.get_flag("_quiet"); } if cli(m, "über") { v.über = m.get_flag("über"); } if cli(m, "other") { v.other = m.get_one::<String>("other").cloned(); } });

scell!(CShortNamesUpper, SShortNamesUpper,
    model: |m| Some(SShortNamesUpper { über: m.get_flag("über"), other: m.get_one::<String>("other").cloned() }),
    domain: vec![SShortNamesUpper { über: false, other: None }, SShortNamesUpper { über: true, other: Some(s("o")) }],
    print: |v| { let mut a = vec![]; if v.über { a.push(s("-Ü")); } if let Some(o) = &v.other { a.push(format!("--OTHER={}", o)); } a },
    update_model: |v, m| { if cli(m, "über") { v.über = m.get_flag("über"); } if cli(m, "other") { v.other = m.get_one::<String>("other").cloned(); } });

scell!(COptFlatten, SOptFlatten,
    model: |m| Some(SOptFlatten { inner: if cli(m, "name") || cli(m, "force") { Some(model_inner(m)) } else { None }, other: m.get_one::<String>("other").cloned() }),
    domain: vec![SOptFlatten { inner: None, other: None }, SOptFlatten { inner: Some(Inner { name: Some(s("n")), force: false }), other: Some(s("o")) }, SOptFlatten { inner: Some(Inner { name: None, force: true }), other: None }],
    print: |v| { let mut a = v.inner.as_ref().map(print_inner).unwrap_or_default(); if let Some(o) = &v.other { a.push(format!("--other={}", o)); } a },
    update_model: |v, m| {
        if cli(m, "name") || cli(m, "force") {
            let mut i = v.inner.clone().unwrap_or(Inner { name: None, force: false });
            if cli(m, "name") { i.name = m.get_one::<String>("name").cloned(); }
            if cli(m, "force") { i.force = m.get_flag("force"); }
            v.inner = Some(i);
        }
        if cli(m, "other") { v.other = m.get_one::<String>("other").cloned(); }
    });

scell!(CSub, SSub,
    model: |m| model_cmd(m).map(|c| SSub { other: m.get_one::<String>("other").cloned(), cmd: c }),
    domain: cmd_domain().into_iter().map(|c| SSub { other: None, cmd: c }).chain(std::iter::once(SSub { other: Some(s("o")), cmd: Cmd::Status })).collect(),
    print: |v| { let mut a = vec![]; if let Some(o) = &v.other { a.push(format!("--other={}", o)); } a.extend(print_cmd(&v.cmd)); a },
    update_model: |v, m| { if cli(m, "other") { v.other = m.get_one::<String>("other").cloned(); } if let Some(c) = overlay_cmd(&v.cmd, m) { v.cmd = c; } });

scell!(COptSub, SOptSub,
    model: |m| Some(SOptSub { other: m.get_one::<String>("other").cloned(), cmd: model_cmd(m) }),
    domain: cmd_domain().into_iter().map(|c| SOptSub { other: None, cmd: Some(c) }).chain(vec![SOptSub { other: None, cmd: None }, SOptSub { other: Some(s("o")), cmd: None }]).collect(),
    print: |v| { let mut a = vec![]; if let Some(o) = &v.other { a.push(format!("--other={}", o)); } if let Some(c) = &v.cmd { a.extend(print_cmd(c)); } a },
    update_model: |v, m| { if cli(m, "other") { v.other = m.get_one::<String>("other").cloned(); } let n = match &v.cmd { Some(c) => overlay_cmd(c, m), None => model_cmd(m) }; if let Some(c) = n { v.cmd = Some(c); } });

scell!(CFlatSub, SFlatSub,
    model: |m| Some(SFlatSub { cmd: model_outer(m) }),
    domain: vec![SFlatSub { cmd: None }, SFlatSub { cmd: Some(Outer::Extra) }, SFlatSub { cmd: Some(Outer::Base(Cmd2::Status)) }, SFlatSub { cmd: Some(Outer::Base(Cmd2::Remote(Remote::Add { name: s("origin") }))) }, SFlatSub { cmd: Some(Outer::Base(Cmd2::Remote(Remote::Remove { force: false }))) }],
    print: |v| match &v.cmd { None => vec![], Some(Outer::Extra) => vec![s("extra")], Some(Outer::Base(Cmd2::Status)) => vec![s("status")], Some(Outer::Base(Cmd2::Remote(r))) => { let mut a = vec![s("remote")]; a.extend(print_remote(r)); a } },
    update_model: |v, m| { let n = match &v.cmd { Some(c) => overlay_outer(c, m), None => model_outer(m) }; if let Some(c) = n { v.cmd = Some(c); } });

// two optional subcommand fields: one directly, one inside a flattened struct; each owns its names
#[derive(Subcommand, Debug, PartialEq, Clone)]
enum Pull {
    Tag {
        #[arg(long)]
        name: Option<String>,
    },
}

#[derive(Subcommand, Debug, PartialEq, Clone)]
enum Deliver {
    Push {
        #[arg(long)]
        name: Option<String>,
    },
}

#[derive(Args, Debug, PartialEq, Clone)]
struct Rest {
    #[command(subcommand)]
    deliver: Option<Deliver>,
}

#[derive(Parser, Debug, PartialEq, Clone)]
#[command(name = "prog")]
struct STwoSub {
    #[arg(long)]
    other: Option<String>,
    #[command(subcommand)]
    pull: Option<Pull>,
    #[command(flatten)]
    rest: Rest,
}

scell!(CTwoSub, STwoSub,
    model: |m| Some(STwoSub {
        other: m.get_one::<String>("other").cloned(),
        pull: match m.subcommand() { Some(("tag", sm)) => Some(Pull::Tag { name: sm.get_one::<String>("name").cloned() }), _ => None },
        rest: Rest { deliver: match m.subcommand() { Some(("push", sm)) => Some(Deliver::Push { name: sm.get_one::<String>("name").cloned() }), _ => None } },
    }),
    domain: vec![
        STwoSub { other: None, pull: None, rest: Rest { deliver: None } },
        STwoSub { other: Some(s("o")), pull: Some(Pull::Tag { name: None }), rest: Rest { deliver: None } },
        STwoSub { other: None, pull: Some(Pull::Tag { name: Some(s("n")) }), rest: Rest { deliver: None } },
        STwoSub { other: None, pull: None, rest: Rest { deliver: Some(Deliver::Push { name: None }) } },
        STwoSub { other: None, pull: None, rest: Rest { deliver: Some(Deliver::Push { name: Some(s("n")) }) } },
    ],
    print: |v| {
        let mut a = vec![];
        if let Some(o) = &v.other { a.push(format!("--other={}", o)); }
        if let Some(Pull::Tag { name }) = &v.pull { a.push(s("tag")); if let Some(n) = name { a.push(format!("--name={}", n)); } }
        if let Some(Deliver::Push { name }) = &v.rest.deliver { a.push(s("push")); if let Some(n) = name { a.push(format!("--name={}", n)); } }
        a
    },
    update_model: |v, m| {
        if cli(m, "other") { v.other = m.get_one::<String>("other").cloned(); }
        match m.subcommand() {
            Some(("tag", sm)) => {
                let old = match &v.pull { Some(Pull::Tag { name }) => name.clone(), None => None };
                v.pull = Some(Pull::Tag { name: if cli(sm, "name") { sm.get_one::<String>("name").cloned() } else { old } });
            }
            Some(("push", sm)) => {
                let old = match &v.rest.deliver { Some(Deliver::Push { name }) => name.clone(), None => None };
                v.rest.deliver = Some(Deliver::Push { name: if cli(sm, "name") { sm.get_one::<String>("name").cloned() } else { old } });
            }
            _ => {}
        }
    });

// a subcommand enum that itself asks for `subcommand_required` / `arg_required_else_help`: both are
// parse-time demands and must be off in the command used for updating
#[derive(Subcommand, Debug, PartialEq, Clone)]
#[command(subcommand_required = true, arg_required_else_help = true)]
enum Loud {
    Status,
    Tag {
        #[arg(long)]
        name: Option<String>,
    },
}

#[derive(Parser, Debug, PartialEq, Clone)]
#[command(name = "prog")]
struct SLoudSub {
    #[arg(long)]
    other: Option<String>,
    #[command(subcommand)]
    cmd: Loud,
}

scell!(CLoudSub, SLoudSub,
    model: |m| match m.subcommand() {
        Some(("status", _)) => Some(SLoudSub { other: m.get_one::<String>("other").cloned(), cmd: Loud::Status }),
        Some(("tag", sm)) => Some(SLoudSub { other: m.get_one::<String>("other").cloned(), cmd: Loud::Tag { name: sm.get_one::<String>("name").cloned() } }),
        _ => None,
    },
    domain: vec![SLoudSub { other: None, cmd: Loud::Status }, SLoudSub { other: Some(s("o")), cmd: Loud::Tag { name: None } }, SLoudSub { other: None, cmd: Loud::Tag { name: Some(s("n")) } }],
    print: |v| {
        let mut a = vec![];
        if let Some(o) = &v.other { a.push(format!("--other={}", o)); }
        match &v.cmd { Loud::Status => a.push(s("status")), Loud::Tag { name } => { a.push(s("tag")); if let Some(n) = name { a.push(format!("--name={}", n)); } } }
        a
    },
    update_model: |v, m| {
        if cli(m, "other") { v.other = m.get_one::<String>("other").cloned(); }
        match m.subcommand() {
            Some(("status", _)) => v.cmd = Loud::Status,
            Some(("tag", sm)) => {
                let old = match &v.cmd { Loud::Tag { name } => name.clone(), _ => None };
                v.cmd = Loud::Tag { name: if cli(sm, "name") { sm.get_one::<String>("name").cloned() } else { old } };
            }
            _ => {}
        }
    });

// an optional flattened struct whose only member can be overridden away by an argument outside it:
// once the member is gone nothing of the struct is on the line any more
#[derive(Args, Debug, PartialEq, Clone)]
struct InnerO {
    #[arg(long, overrides_with = "force")]
    name: Option<String>,
}

#[derive(Parser, Debug, PartialEq, Clone)]
#[command(name = "prog")]
struct SOvrFlatten {
    #[command(flatten)]
    inner: Option<InnerO>,
    #[arg(long)]
    force: bool,
}

scell!(COvrFlatten, SOvrFlatten,
    model: |m| Some(SOvrFlatten { inner: if cli(m, "name") { Some(InnerO { name: m.get_one::<String>("name").cloned() }) } else { None }, force: m.get_flag("force") }),
    domain: vec![SOvrFlatten { inner: None, force: false }, SOvrFlatten { inner: None, force: true }, SOvrFlatten { inner: Some(InnerO { name: Some(s("n")) }), force: false }],
    print: |v| { let mut a = vec![]; if v.force { a.push(s("--force")); } if let Some(InnerO { name: Some(n) }) = &v.inner { a.push(format!("--name={}", n)); } a },
    update_model: |v, m| {
        if cli(m, "name") { v.inner = Some(InnerO { name: m.get_one::<String>("name").cloned() }); }
        if cli(m, "force") { v.force = m.get_flag("force"); }
    });

fn corpus() -> Vec<Box<dyn Cell>> {
    vec![
        Box::new(CBool), Box::new(CCount), Box::new(CReqStr), Box::new(CReqU8), Box::new(CReqEnum), Box::new(CReqPos),
        Box::new(CDefU8), Box::new(CDefEnum), Box::new(CDefStr),
        Box::new(COptStr), Box::new(COptU8), Box::new(COptEnum), Box::new(COptPos), Box::new(COptEnv),
        Box::new(COptOptStr), Box::new(COptOptU8),
        Box::new(CVecStr), Box::new(CVecU8), Box::new(CVecPos), Box::new(CVecN), Box::new(CVecEnum),
        Box::new(COptVecStr), Box::new(COptVecN0),
        Box::new(CGlobal), Box::new(CDefMissing),
        Box::new(CSetFalse), Box::new(CDefVals), Box::new(CReqVec), Box::new(COptBool), Box::new(CShortOnly), Box::new(CReqPosVec), Box::new(CCountU8Def), Box::new(CReqFlatten), Box::new(CBoxFlatten), Box::new(CShortNames), Box::new(CShortNamesUpper), Box::new(CReqU32), Box::new(CScalarAppend), Box::new(CScalarN), Box::new(CReqScalarN),
        Box::new(CFlatten), Box::new(COptFlatten), Box::new(CSub), Box::new(COptSub), Box::new(CFlatSub), Box::new(CTwoSub), Box::new(CLoudSub), Box::new(COvrFlatten),
    ]
}

/// Classify an update mismatch by cause: is it exactly "a field whose argument has a default
/// (flag, counter, default_value) was put back to that default although the line does not name it"?
fn update_cause(cell: &str, got: &str, want: &str, upd_has_f: bool) -> String {
    let defaulted_cell = matches!(cell, "SBool" | "SCount" | "SDefU8" | "SDefEnum" | "SDefStr" | "SSetFalse" | "SDefVals" | "SCountU8Def" | "SShortNames" | "SShortNamesUpper");
    // structural types: the only defaulted leaf is the flag `force`
    let force_reset = got.replace("force: false", "force: true") == want.replace("force: false", "force: true");
    if (defaulted_cell && !upd_has_f) || (!defaulted_cell && force_reset && got != want) {
        "update resets a field whose argument has a default although the update line does not name it".to_string()
    } else {
        format!("{}: update changes a field that the command line does not name (or misses one it names)", cell)
    }
}

fn check_value_enum() -> Vec<(String, String)> {
    let mut bad = vec![];
    for v in Mode::value_variants() {
        let Some(pv) = v.to_possible_value() else { continue };
        for n in pv.get_name_and_aliases() {
            match Mode::from_str(n, false) {
                Ok(x) if &x == v => {}
                other => bad.push(("a value-enum name or alias does not map back to its variant".into(), format!("{:?}: {} -> {:?}", v, n, other))),
            }
            let up = n.to_uppercase();
            if up != n {
                if Mode::from_str(&up, false).is_ok() {
                    bad.push(("value-enum matches case-insensitively without being asked".into(), format!("{}", up)));
                }
                match Mode::from_str(&up, true) {
                    Ok(x) if &x == v => {}
                    other => bad.push(("value-enum does not match case-insensitively when asked".into(), format!("{} -> {:?}", up, other))),
                }
            }
        }
    }
    // the declared spellings, not the ones clap reports back
    for (n, v) in MODE_DECLARED {
        match Mode::from_str(n, false) {
            Ok(x) if &x == v => {}
            other => bad.push(("a declared value-enum name or alias does not map to its variant".into(), format!("Mode {} -> {:?}", n, other))),
        }
    }
    for (n, v) in SPEED_DECLARED {
        match Speed::from_str(n, false) {
            Ok(x) if &x == v => {}
            other => bad.push(("a declared value-enum name or alias does not map to its variant".into(), format!("Speed {} -> {:?}", n, other))),
        }
        match SpeedCli::try_parse_from(["prog", "--speed", n]) {
            Ok(c) if &c.speed == v => {}
            Ok(c) => bad.push(("a declared value-enum name or alias does not map to its variant".into(), format!("--speed {} -> {:?}", n, c.speed))),
            Err(e) => bad.push(("a declared value-enum name or alias does not map to its variant".into(), format!("--speed {} -> {}", n, kind(&e)))),
        }
    }
    for (n, v) in LEVEL_DECLARED {
        match Level::from_str(n, false) {
            Ok(x) if &x == v => {}
            other => bad.push(("a declared value-enum name or alias does not map to its variant".into(), format!("Level {} -> {:?}", n, other))),
        }
        for flag in ["--level", "--other"] {
            match LevelCli::try_parse_from(["prog", flag, n]) {
                Ok(c) => {
                    let got = if flag == "--level" { Some(c.level.clone()) } else { c.other.clone() };
                    if got.as_ref() != Some(v) {
                        bad.push(("a declared value-enum name or alias does not map to its variant".into(), format!("{} {} -> {:?}", flag, n, got)));
                    }
                    if flag == "--other" && c.level != Level::High {
                        bad.push(("a value-enum default does not map to its variant".into(), format!("default_value_t = High -> {:?}", c.level)));
                    }
                }
                Err(e) => bad.push(("a declared value-enum name or alias does not map to its variant".into(), format!("{} {} -> {}", flag, n, kind(&e)))),
            }
        }
    }
    for w in ["fas", "quic", "", "Fast", "mi", "middle", "hal"] {
        if let Ok(x) = Speed::from_str(w, false) {
            bad.push(("a string that is no declared name or alias parses as a value-enum variant".into(), format!("Speed {:?} -> {:?}", w, x)));
        }
    }
    if Mode::from_str("secret", true).is_ok() {
        bad.push(("a skipped value-enum variant can be parsed".into(), "secret".into()));
    }
    bad
}

fn judge_parse(c: &dyn Cell, argv: &[String], h: &mut Hist) -> Vec<(String, String)> {
    let mut bad = vec![];
    let f = full(argv);
    let d = c.parse(&f);
    let m = c.command().try_get_matches_from(&f);
    match (&d, &m) {
        (Ok(v), Ok(m)) => {
            h.bump("parse/both-ok");
            h.nontrivial += 1;
            let want = c.model(m);
            if v != &want {
                bad.push((format!("{}: a derived field differs from what the matches hold for its shape", c.name()), format!("derive: {} model: {}", v, want)));
            }
        }
        (Err(_), Err(_)) => h.bump("parse/both-err"),
        (Ok(v), Err(e)) => bad.push((format!("{}: derive parses a line its command rejects", c.name()), format!("value {} command error {}", v, kind(e)))),
        (Err(k), Ok(m)) => {
            // a subcommand value the model cannot build either is a legitimate derive-side error
            if c.model(m) == "<model: no value>" {
                h.bump("parse/derive-err-model-none");
            } else {
                bad.push((format!("{}: derive rejects a line its command accepts", c.name()), format!("derive error {}", k)));
            }
        }
    }
    bad
}

fn judge_update(c: &dyn Cell, start: &[String], upd: &[String], h: &mut Hist) -> Vec<(String, String)> {
    let mut bad = vec![];
    let f = full(upd);
    let got = c.update(start, &f);
    let m = c.command_for_update().try_get_matches_from(&f);
    match (got, m) {
        (Ok(g), Ok(m)) => {
            h.bump("update/ok");
            h.nontrivial += 1;
            let want = c.update_model(start, &m);
            if g != want {
                let names_f = upd.iter().any(|t| t.starts_with("--f") || t == "-f" || (!t.starts_with('-') && c.name().ends_with("Pos")));
                bad.push((update_cause(c.name(), &g, &want, names_f), format!("{}: start {:?} update {:?}: got {} want {}", c.name(), start, upd, g, want)));
            }
        }
        (Err(_), Err(e)) => {
            h.bump("update/both-err");
            // an update line names what it wants to change: the update command must not insist on
            // arguments the value already has, at any level of the line
            // (a line that switches to another subcommand variant has to supply that variant's
            // required arguments: only lines that stay on the value's own variant path are judged)
            let chain = |v: &[String]| -> Vec<String> { v.iter().filter(|t| ["status", "push", "tag", "remote", "add", "remove", "extra"].contains(&t.as_str())).cloned().collect() };
            let same_path = chain(upd).is_empty() || chain(upd) == chain(start);
            if same_path && matches!(e.kind(), clap::error::ErrorKind::MissingRequiredArgument | clap::error::ErrorKind::MissingSubcommand | clap::error::ErrorKind::DisplayHelpOnMissingArgumentOrSubcommand) {
                bad.push((format!("{}: the update command requires an argument the update line does not name", c.name()), format!("start {:?} update {:?}: {}", start, upd, e.to_string().lines().next().unwrap_or(""))));
            }
        }
        (Ok(g), Err(e)) => bad.push((format!("{}: update succeeds on a line command_for_update rejects", c.name()), format!("{} / {}", g, kind(&e)))),
        (Err(k), Ok(_)) => {
            if k.starts_with("start value") {
                bad.push((format!("{}: printed value does not parse back", c.name()), k));
            } else {
                // the update command accepts the line but the generated updater fails: justified
                // only when the line switches to another subcommand variant and leaves that
                // variant's required arguments (or its own nested subcommand) out
                let chain = |v: &[String]| -> Vec<String> { v.iter().filter(|t| ["status", "push", "tag", "remote", "add", "remove", "extra"].contains(&t.as_str())).cloned().collect() };
                let switches = !chain(upd).is_empty() && chain(upd) != chain(start);
                if (k == "MissingRequiredArgument" || k == "MissingSubcommand") && switches {
                    h.bump("update/derive-err (variant switch without its required arguments)");
                } else {
                    bad.push((format!("{}: update fails ({}) on a line the update command accepts", c.name(), k), format!("start {:?} update {:?}", start, upd)));
                }
            }
        }
    }
    bad
}

fn recheck(case: &Value) -> Vec<Violation> {
    let name = case["cell"].as_str().unwrap_or("");
    let cs = corpus();
    let mut h = Hist::new();
    let strs = |v: &Value| -> Vec<String> { v.as_array().map(|a| a.iter().map(|x| x.as_str().unwrap_or("").to_string()).collect()).unwrap_or_default() };
    let r: Vec<(String, String)> = match case["part"].as_str().unwrap_or("") {
        "value_enum" => check_value_enum(),
        part => {
            let Some(c) = cs.iter().find(|c| c.name() == name) else { return vec![] };
            match part {
                "parse" => catch(|| judge_parse(c.as_ref(), &strs(&case["argv"]), &mut h)).unwrap_or_else(|p| vec![(p.key(), p.show())]),
                "roundtrip" => {
                    let argv = strs(&case["argv"]);
                    match c.parse(&full(&argv)) {
                        Ok(v) if Some(v.as_str()) == case["value"].as_str() => vec![],
                        other => vec![(format!("{}: parse(print(v)) != v", c.name()), format!("{:?}", other))],
                    }
                }
                _ => catch(|| judge_update(c.as_ref(), &strs(&case["start"]), &strs(&case["update"]), &mut h)).unwrap_or_else(|p| vec![(p.key(), p.show())]),
            }
        }
    };
    r.into_iter().map(|(c, w)| Violation { cause: c, order: (0, 0), what: w, case: case.clone() }).collect()
}

fn main() {
    let cli_ = Cli::parse();
    install_silent_hook();
    mcmodel::fix_env();
    let tier = match &cli_.mode {
        Mode_::Replay(p) => run_replay(PROP, p, &recheck),
        Mode_::Explore(t) => *t,
    };
    let rep = Report::new(PROP, tier, cli_.seed);
    let l = tier.pick(3usize, 5usize);
    let cs = corpus();
    rep.rule("block = one derived type of the corpus; cases: (1) every argv in A^{<=L} over the cell's 14-token alphabet: derive parse ok <=> generated command parse ok, value == per-shape extraction model; (2) every value of the cell's domain: parse(print(v)) == v; (3) BFS over update histories: states = values of the domain reached, operations = update lines (every argv of length <= 2 over the alphabet), expected next state = overlay model on command_for_update() matches; (4) value-enum name/alias table. non-trivial = successful parses/updates whose value was compared with the model");
    rep.set("bounds", json!({"types": cs.iter().map(|c| c.name()).collect::<Vec<_>>(), "max_argv_len": l, "update_line_len": 2}));
    rep.assume("the corpus is hand-written (one declarative macro per cell family) and covers: bool, counter, required, default_value_t, Option, Option<Option>, Vec, Option<Vec> (nested vectors need the `unstable-v5` feature, which is not compiled in) over String/u8/ValueEnum with long/short/positional naming and the extras value_delimiter, num_args, env, global, default_missing_value; flatten, Option<flatten>, subcommand enum (unit, tuple(Args), struct, nested, external), Option<subcommand>, flattened subcommand enum. Derive inputs outside this matrix are not covered");

    for (c, w) in check_value_enum() {
        rep.violation(Violation { cause: c.clone(), order: (0, 0), what: format!("{} ({})", c, w), case: json!({"part": "value_enum"}) });
    }
    par_blocks(cs.len(), |bi, _| {
        let c = cs[bi].as_ref();
        let alpha = c.alphabet();
        let mut h = Hist::new();
        // (1)
        let mut idx = 0u64;
        for_each_seq(alpha.len(), l, |s| {
            let argv: Vec<String> = s.iter().map(|i| alpha[*i].to_string()).collect();
            h.evaluations += 1;
            h.states += 1;
            h.transitions += 1;
            h.validated += 1;
            idx += 1;
            let r = catch(|| judge_parse(c, &argv, &mut h)).unwrap_or_else(|p| vec![(p.key(), p.show())]);
            for (cause, w) in r {
                rep.violation(Violation { cause: cause.clone(), order: (bi as u64, idx), what: format!("{} argv {:?}: {} ({})", c.name(), argv, cause, w), case: json!({"part": "parse", "cell": c.name(), "argv": argv}) });
            }
        });
        // (2)
        let dom = c.domain();
        for (di, (dbg, argv)) in dom.iter().enumerate() {
            h.evaluations += 1;
            h.states += 1;
            h.transitions += 1;
            h.validated += 1;
            match catch(|| c.parse(&full(argv))) {
                Ok(Ok(v)) if &v == dbg => {
                    h.bump("roundtrip/ok");
                    h.nontrivial += 1;
                }
                other => rep.violation(Violation {
                    cause: format!("{}: parse(print(v)) != v", c.name()),
                    order: (bi as u64, 1_000_000 + di as u64),
                    what: format!("{}: value {} printed as {:?} parses to {:?}", c.name(), dbg, argv, other),
                    case: json!({"part": "roundtrip", "cell": c.name(), "argv": argv, "value": dbg}),
                }),
            }
        }
        // (3) BFS over update histories: states are domain values (by printed argv)
        let mut lines: Vec<Vec<String>> = vec![];
        for_each_seq(alpha.len(), 2, |s| lines.push(s.iter().map(|i| alpha[*i].to_string()).collect()));
        let mut reached: std::collections::BTreeSet<String> = Default::default();
        let mut frontier: Vec<(String, Vec<String>)> = dom.iter().take(1).cloned().collect();
        // start the search from every domain value (non-initial states too)
        frontier.extend(dom.iter().skip(1).cloned());
        let mut ui = 0u64;
        while let Some((dbg, start)) = frontier.pop() {
            if !reached.insert(dbg.clone()) {
                continue;
            }
            for upd in &lines {
                h.evaluations += 1;
                h.transitions += 1;
                h.validated += 1;
                ui += 1;
                let r = catch(|| judge_update(c, &start, upd, &mut h)).unwrap_or_else(|p| vec![(p.key(), p.show())]);
                for (cause, w) in r {
                    rep.violation(Violation { cause: cause.clone(), order: (bi as u64, 2_000_000 + ui), what: format!("{}: {} ({})", c.name(), cause, w), case: json!({"part": "update", "cell": c.name(), "start": start, "update": upd}) });
                }
                // successor state, if it is a domain value we can print
                if let Ok(Ok(next)) = catch(|| c.update(&start, &full(upd))) {
                    if let Some((d2, a2)) = dom.iter().find(|(d, _)| d == &next) {
                        if !reached.contains(d2) {
                            frontier.push((d2.clone(), a2.clone()));
                        }
                    }
                }
            }
            h.states += 1;
        }
        h.add("update/states", reached.len() as u64);
        if bi == 0 || bi == cs.len() - 1 {
            rep.sample(json!({"type": c.name(), "domain_values": dom.len(), "example_print": dom.last().map(|d| d.1.clone())}));
        }
        rep.merge(&h);
    });
    rep.finish(&recheck);
}

use mccore::Mode as Mode_;
