//! C11 — parsing is deterministic, re-entrant and independent of build timing.
//!
//! Explicit-state search (E2) over histories of operations on ONE `Command` value:
//!   P_i = try_get_matches_from_mut(argv_i), B = build(), H/L/U/V = render help / long help /
//!   usage / version, K = continue with a clone.
//! State = the `Command`; canonical form = its derived `Debug` text (covers every field).
//! Invariant, evaluated in every distinct reached state s and for every probe argv a:
//!   result(s.clone(), a) agrees with result(fresh definition, a): both Ok with equal ArgMatches, or
//!   both Err with the same kind; and the identical rendered message in the search that contains no
//!   explicit build (the property exempts explicitly built definitions from message identity only).
//! Also: build is idempotent (canon(B;B) == canon(B)).

use clap::Command;
use mccore::report::run_replay;
use mccore::*;
use mcmodel::dev;
use mcmodel::*;
use serde_json::{json, Value};

const PROP: &str = "C11";

#[derive(Clone, Debug, PartialEq, Eq)]
enum Op {
    Parse(usize),
    Build,
    Help,
    LongHelp,
    Usage,
    Version,
    CloneIt,
    /// render the help of the first subcommand through `find_subcommand_mut` (before or after the
    /// parent was ever built)
    SubHelp,
    SubUsage,
}

fn probes(spec: &CmdSpec) -> Vec<Vec<Vec<u8>>> {
    let v: Vec<Vec<&str>> = if spec.has(Setting::Multicall) {
        vec![vec!["sub", "-x"], vec!["sub", "--bogus"], vec!["bogus"], vec!["help"], vec!["sub", "--help"], vec!["help", "nosuch"], vec!["sub", "help"]]
    } else {
        vec![
            vec!["-a"],
            vec!["--opt", "v", "sub", "-x"],
            vec!["sub", "deep", "-y"],
            vec!["--zzz"],
            vec!["--alph"],
            vec!["-a", "-a"],
            vec![],
            vec!["-h"],
            vec!["sub", "--help"],
            vec!["help", "sub"],
            vec!["help", "nosuch"],
            vec!["sub", "--bogus"],
            vec!["sub", "help", "nosuch"],
            vec!["-V"],
            vec!["su"],
            vec!["v", "w"],
            vec!["sub", "-a"],
            vec!["sub", "--opt", "v"],
            vec!["help", "help"],
            vec!["help", "help", "help"],
            vec!["help", "sub", "deep"],
            vec!["sub", "deep", "-V"],
            vec!["sub", "deep", "--help"],
        ]
    };
    v.into_iter().map(|l| l.into_iter().map(|s| s.as_bytes().to_vec()).collect()).collect()
}

#[derive(Clone, Debug, PartialEq, Eq)]
enum Res {
    Ok(String),
    Err { kind: String, msg: String },
    Panic(String),
}

fn run_parse(cmd: &mut Command, spec: &CmdSpec, argv: &[Vec<u8>]) -> Res {
    let full: Vec<std::ffi::OsString> = if spec.has(Setting::NoBinaryName) || spec.has(Setting::Multicall) {
        argv.iter().map(|a| os(a)).collect()
    } else {
        argv_os("prog", argv)
    };
    match catch(|| cmd.try_get_matches_from_mut(full)) {
        Ok(Ok(m)) => Res::Ok(format!("{:?}", m)),
        Ok(Err(e)) => Res::Err { kind: format!("{:?}", e.kind()), msg: e.render().to_string() },
        Err(p) => Res::Panic(p.key()),
    }
}

fn apply(cmd: &Command, spec: &CmdSpec, op: &Op, pr: &[Vec<Vec<u8>>]) -> Command {
    let mut c = cmd.clone();
    match op {
        Op::Parse(i) => {
            let _ = run_parse(&mut c, spec, &pr[*i]);
        }
        Op::Build => {
            let _ = catch(|| c.build());
        }
        Op::Help => {
            let _ = catch(|| c.render_help().to_string());
        }
        Op::LongHelp => {
            let _ = catch(|| c.render_long_help().to_string());
        }
        Op::Usage => {
            let _ = catch(|| c.render_usage().to_string());
        }
        Op::Version => {
            let _ = catch(|| c.render_version());
        }
        Op::CloneIt => {
            c = c.clone();
        }
        Op::SubHelp => {
            if let Some(sc) = c.get_subcommands_mut().next() {
                let _ = catch(|| sc.render_help().to_string());
            }
        }
        Op::SubUsage => {
            if let Some(sc) = c.get_subcommands_mut().next() {
                let _ = catch(|| sc.render_usage().to_string());
            }
        }
    }
    c
}

fn canon(c: &Command) -> String {
    format!("{:?}", c)
}

struct SearchOut {
    states: u64,
    transitions: u64,
    max_depth: u32,
    fixpoint: bool,
    violations: Vec<(String, String, Vec<String>, usize)>, // cause, what, history, probe
}

fn search(spec: &CmdSpec, with_build: bool, depth: u32, cap: usize) -> SearchOut {
    let pr = probes(spec);
    let fresh = build(spec);
    // reference results from a fresh definition, one fresh definition per probe
    // (built anew from the spec each time, never cloned: cloning is one of the operations under test)
    let reference: Vec<Res> = pr.iter().map(|a| run_parse(&mut build(spec), spec, a)).collect();
    let mut ops: Vec<Op> = (0..pr.len()).map(Op::Parse).collect();
    if with_build {
        ops.push(Op::Build);
    }
    ops.extend([Op::Help, Op::LongHelp, Op::Usage, Op::Version, Op::CloneIt, Op::SubHelp, Op::SubUsage]);
    let viol: std::cell::RefCell<Vec<(String, String, usize, usize)>> = Default::default();
    let b = Bfs::run(
        vec![(fresh.clone(), false)],
        |s: &(Command, bool)| format!("{}{}", if s.1 { "B" } else { "-" }, canon(&s.0)),
        |s, _d| {
            let (c, built) = s;
            ops.iter()
                // `Command::build` documents that the top-level command has to be prepared before
                // its children are introspected: rendering a child of a never-built parent is not
                // part of the history space
                .filter(|op| *built || !matches!(op, Op::SubHelp | Op::SubUsage))
                .map(|op| {
                    let prepared = *built || !matches!(op, Op::CloneIt | Op::Version | Op::SubHelp | Op::SubUsage);
                    (op.clone(), (apply(c, spec, op, &pr), prepared))
                })
                .collect()
        },
        |s, idx, _d| {
            let c = &s.0;
            for (pi, a) in pr.iter().enumerate() {
                let got = run_parse(&mut c.clone(), spec, a);
                let want = &reference[pi];
                let bad: Option<(String, String)> = match (&got, want) {
                    (Res::Panic(p), _) => Some((format!("parse on a reused definition panics: {}", p), String::new())),
                    (Res::Ok(g), Res::Ok(w)) => {
                        if g != w {
                            Some(("reused definition gives different matches than a fresh one".into(), format!("reused: {} fresh: {}", trunc(g), trunc(w))))
                        } else {
                            None
                        }
                    }
                    (Res::Err { kind: gk, msg: gm }, Res::Err { kind: wk, msg: wm }) => {
                        if gk != wk {
                            Some(("reused definition fails with a different error kind than a fresh one".into(), format!("reused {} fresh {}", gk, wk)))
                        } else if !with_build && gm != wm {
                            Some(("reused definition renders a different message than a fresh one".into(), format!("reused: {:?} fresh: {:?}", first_diff(gm, wm), first_diff(wm, gm))))
                        } else {
                            None
                        }
                    }
                    (g, w) => Some((
                        "reused definition and fresh definition disagree on success".into(),
                        format!("reused {} fresh {}", short(g), short(w)),
                    )),
                };
                if let Some((c0, w0)) = bad {
                    viol.borrow_mut().push((c0, w0, idx, pi));
                }
            }
            // idempotent build
            if with_build {
                let mut b1 = c.clone();
                let _ = catch(|| b1.build());
                let mut b2 = b1.clone();
                let _ = catch(|| b2.build());
                if canon(&b1) != canon(&b2) {
                    viol.borrow_mut().push(("build() is not idempotent".into(), String::new(), idx, usize::MAX));
                }
            }
        },
        depth,
        cap,
    );
    let mut violations = vec![];
    let mut seen = std::collections::BTreeSet::new();
    for (c, w, idx, pi) in viol.into_inner() {
        if seen.insert(c.clone()) {
            let hist: Vec<String> = b.trace(idx).iter().map(|o| op_name(o, &pr)).collect();
            violations.push((c, w, hist, pi));
        }
    }
    SearchOut { states: b.stats.states, transitions: b.stats.transitions, max_depth: b.stats.max_depth, fixpoint: b.stats.fixpoint, violations }
}

fn trunc(s: &str) -> String {
    if s.len() > 300 {
        format!("{}…", &s[..300])
    } else {
        s.to_string()
    }
}
fn short(r: &Res) -> String {
    match r {
        Res::Ok(_) => "Ok".into(),
        Res::Err { kind, .. } => format!("Err({})", kind),
        Res::Panic(p) => format!("panic {}", p),
    }
}
fn first_diff(a: &str, b: &str) -> String {
    for (la, lb) in a.lines().zip(b.lines().chain(std::iter::repeat(""))) {
        if la != lb {
            return la.to_string();
        }
    }
    a.lines().last().unwrap_or("").to_string()
}

fn op_name(o: &Op, pr: &[Vec<Vec<u8>>]) -> String {
    match o {
        Op::Parse(i) => format!("parse{:?}", pr[*i].iter().map(|a| show(a)).collect::<Vec<_>>()),
        other => format!("{:?}", other),
    }
}

fn configs(tier: Tier) -> Vec<(Vec<&'static str>, CmdSpec)> {
    let picks: Vec<Vec<&str>> = vec![
        vec![],
        vec!["sub_nested"],
        vec!["opt_global"],
        vec!["flag_global"],
        vec!["opt_in_group_with_a"],
        vec!["sub_short_flag"],
        vec!["sub_long_flag"],
        vec!["infer_long_args"],
        vec!["infer_subcommands"],
        vec!["opt_required"],
        vec!["disable_help_flag"],
        vec!["disable_help_subcommand"],
        vec!["version_propagated"],
        vec!["args_conflicts_with_subcommands"],
        vec!["subcommand_required"],
        vec!["arg_required_else_help"],
        vec!["external_subcommands_os"],
        vec!["sub_alias"],
        vec!["second_sub_shared_prefix"],
        vec!["sub_required_opt"],
        vec!["flag_in_required_group"],
        vec!["multicall"],
        vec!["no_binary_name"],
        vec!["sub_nested", "opt_global"],
        vec!["sub_nested", "version_propagated"],
        vec!["sub_nested", "sub_short_flag"],
        vec!["sub_nested", "infer_subcommands"],
        vec!["sub_nested", "flag_global"],
    ];
    let cat = dev::catalogue();
    let mut out = vec![];
    let mk = |names: &[&str]| -> (Vec<&'static str>, CmdSpec) {
        let mut c = dev::base();
        let mut used = vec![];
        for d in cat.iter() {
            if names.contains(&d.name) {
                (d.apply)(&mut c);
                used.push(d.name);
            }
        }
        // command-level settings that the shared catalogue leaves to the help checks
        for (n, st) in LOCAL {
            if names.contains(&n) {
                c.set(st);
                used.push(n);
            }
        }
        (used, c)
    };
    for p in &picks {
        out.push(mk(p));
    }
    // a setting switched on and off again before first use must leave no trace that shows up only
    // after the definition has been built once
    const TOGGLES: [(&str, Setting); 21] = [
        ("toggle:no_binary_name", Setting::NoBinaryName),
        ("toggle:multicall", Setting::Multicall),
        ("toggle:propagate_version", Setting::PropagateVersion),
        ("toggle:ignore_errors", Setting::IgnoreErrors),
        ("toggle:disable_help_flag", Setting::DisableHelpFlag),
        ("toggle:disable_help_subcommand", Setting::DisableHelpSubcommand),
        ("toggle:disable_version_flag", Setting::DisableVersionFlag),
        ("toggle:infer_long_args", Setting::InferLongArgs),
        ("toggle:infer_subcommands", Setting::InferSubcommands),
        ("toggle:args_override_self", Setting::ArgsOverrideSelf),
        ("toggle:args_conflicts_with_subcommands", Setting::ArgsConflictsWithSubcommands),
        ("toggle:subcommand_precedence_over_arg", Setting::SubcommandPrecedenceOverArg),
        ("toggle:subcommand_negates_reqs", Setting::SubcommandNegatesReqs),
        ("toggle:subcommand_required", Setting::SubcommandRequired),
        ("toggle:arg_required_else_help", Setting::ArgRequiredElseHelp),
        ("toggle:dont_delimit_trailing_values", Setting::DontDelimitTrailingValues),
        ("toggle:allow_missing_positional", Setting::AllowMissingPositional),
        ("toggle:next_line_help", Setting::NextLineHelp),
        ("toggle:flatten_help", Setting::FlattenHelp),
        ("toggle:hide_possible_values", Setting::HidePossibleValues),
        ("toggle:dont_collapse_args_in_usage", Setting::DontCollapseArgsInUsage),
    ];
    for (i, (n, st)) in TOGGLES.iter().enumerate() {
        // quick: the settings that are global (propagated) or read before the build; thorough: all
        if tier == Tier::Quick && i >= 8 {
            break;
        }
        let (mut used, mut c) = mk(&["sub_nested"]);
        c.toggled.push(*st);
        used.push(*n);
        out.push((used, c));
    }
    for n in cat.iter().map(|d| d.name).chain(LOCAL.iter().map(|l| l.0)) {
        if !picks.iter().any(|p| p.len() == 1 && p[0] == n) {
            out.push(mk(&[n]));
        }
    }
    // every pair of deviations (thorough: every triple that contains a command-level setting)
    let names: Vec<&'static str> = cat.iter().map(|d| d.name).chain(LOCAL.iter().map(|l| l.0)).collect();
    for i in 0..names.len() {
        for j in i + 1..names.len() {
            if !picks.iter().any(|p| p.len() == 2 && p.contains(&names[i]) && p.contains(&names[j])) {
                out.push(mk(&[names[i], names[j]]));
            }
            // quick: the triples that contain flatten_help (it renders every subcommand's names
            // into the parent's help, so naming state left by earlier parses becomes visible)
            if tier == Tier::Quick && names[i] != "flatten_help" && names[j] != "flatten_help" {
                out.push(mk(&[names[i], names[j], "flatten_help"]));
            }
            if tier == Tier::Thorough {
                for k in j + 1..names.len() {
                    let (_, c) = mk(&[names[i]]);
                    let (_, c2) = mk(&[names[j]]);
                    let (_, c3) = mk(&[names[k]]);
                    if c.settings.is_empty() && c2.settings.is_empty() && c3.settings.is_empty() {
                        continue;
                    }
                    out.push(mk(&[names[i], names[j], names[k]]));
                }
            }
        }
    }
    out
}

const LOCAL: [(&str, Setting); 6] = [
    ("flatten_help", Setting::FlattenHelp),
    ("next_line_help", Setting::NextLineHelp),
    ("hide_possible_values", Setting::HidePossibleValues),
    ("dont_collapse_args_in_usage", Setting::DontCollapseArgsInUsage),
    ("propagate_version", Setting::PropagateVersion),
    ("ignore_errors", Setting::IgnoreErrors),
];

fn recheck(case: &Value) -> Vec<Violation> {
    let Ok(spec) = CmdSpec::from_json(&case["spec"]) else { return vec![] };
    if build_valid(&spec).is_err() {
        return vec![];
    }
    let with_build = case["with_build"].as_bool().unwrap_or(false);
    let depth = case["depth"].as_u64().unwrap_or(3) as u32;
    let out = search(&spec, with_build, depth, 20000);
    out.violations
        .into_iter()
        .map(|(c, w, hist, _)| Violation { cause: c, order: (0, 0), what: format!("history {:?}: {}", hist, w), case: case.clone() })
        .collect()
}

fn main() {
    let cli = Cli::parse();
    install_silent_hook();
    fix_env();
    let tier = match &cli.mode {
        Mode::Replay(p) => run_replay(PROP, p, &recheck),
        Mode::Explore(t) => *t,
    };
    let rep = Report::new(PROP, tier, cli.seed);
    let depth = tier.pick(5u32, 8u32);
    let cap = tier.pick(3000usize, 20000usize);
    let cfgs = configs(tier);
    rep.rule("per configuration two breadth-first searches over histories of operations on one Command (16 probe argv as parse operations, render help/long help/usage/version, clone; the second search adds build()), states deduplicated on the Command's Debug text, to fixpoint or the depth bound; in every distinct state every probe argv is parsed on a clone and compared with the result of a fresh definition (ArgMatches Debug equality / error kind / rendered message when no explicit build is in the history). states/transitions are summed over all searches; non-trivial = distinct states other than the initial one (the operations really changed the definition)");
    rep.set("bounds", json!({"configurations": cfgs.len(), "depth": depth, "state_cap_per_search": cap}));
    rep.assume("program name fixed to `prog` (multicall: the applet name is argv[0]); Debug text of Command covers every field and no deferred closures are used, so equal Debug text means equal futures");

    let maxd = std::sync::atomic::AtomicU64::new(0);
    let fix = std::sync::atomic::AtomicU64::new(0);
    let searches = std::sync::atomic::AtomicU64::new(0);
    let per_cfg: std::sync::Mutex<Vec<Value>> = Default::default();
    // two blocks per configuration
    par_blocks(cfgs.len() * 2, |bi, _| {
        let (names, spec) = &cfgs[bi / 2];
        let with_build = bi % 2 == 1;
        if build_valid(spec).is_err() {
            return;
        }
        let out = match catch(|| search(spec, with_build, depth, cap)) {
            Ok(o) => o,
            Err(p) => {
                rep.violation(Violation { cause: p.key(), order: (bi as u64, 0), what: format!("deviations {:?}: {}", names, p.show()), case: json!({"spec": spec.to_json(), "with_build": with_build, "depth": depth}) });
                return;
            }
        };
        let mut h = Hist::new();
        h.states = out.states;
        h.transitions = out.transitions;
        let np = probes(spec).len() as u64;
        h.evaluations = out.states * np;
        h.validated = out.states * np;
        h.nontrivial = out.states.saturating_sub(1);
        h.add(if with_build { "search-with-build/states" } else { "search-without-build/states" }, out.states);
        maxd.fetch_max(out.max_depth as u64, std::sync::atomic::Ordering::Relaxed);
        searches.fetch_add(1, std::sync::atomic::Ordering::Relaxed);
        if out.fixpoint {
            fix.fetch_add(1, std::sync::atomic::Ordering::Relaxed);
        }
        per_cfg.lock().unwrap().push(json!({"deviations": names, "with_build": with_build, "distinct_states": out.states, "transitions": out.transitions, "max_depth": out.max_depth, "fixpoint": out.fixpoint}));
        for (c, w, hist, pi) in out.violations {
            let pr = probes(spec);
            rep.violation(Violation {
                cause: c.clone(),
                order: (bi as u64, hist.len() as u64),
                what: format!("deviations {:?} history {:?} then probe {:?}: {} ({})", names, hist, pr.get(pi).map(|a| a.iter().map(|x| show(x)).collect::<Vec<_>>()), c, w),
                case: json!({"spec": spec.to_json(), "deviations": names, "with_build": with_build, "depth": depth, "history": hist}),
            });
        }
        rep.merge(&h);
    });
    let mut pc = per_cfg.into_inner().unwrap();
    pc.sort_by_key(|v| v["deviations"].to_string());
    rep.sample(pc.first().cloned().unwrap_or(json!(null)));
    rep.sample(pc.last().cloned().unwrap_or(json!(null)));
    let nf = fix.load(std::sync::atomic::Ordering::Relaxed);
    let ns = searches.load(std::sync::atomic::Ordering::Relaxed);
    // the evidence file lists the 100 largest searches and every search cut by the depth bound (at
    // most 100 of them), not all of them: the thorough tier runs more than 100 000 searches
    let total_states: u64 = pc.iter().map(|v| v["distinct_states"].as_u64().unwrap_or(0)).sum();
    let mut cut: Vec<Value> = pc.iter().filter(|v| v["fixpoint"] == json!(false)).take(100).cloned().collect();
    pc.sort_by_key(|v| std::cmp::Reverse(v["distinct_states"].as_u64().unwrap_or(0)));
    pc.truncate(100);
    pc.append(&mut cut);
    rep.set("searches", json!({"run": ns, "reached_fixpoint": nf, "max_depth_seen": maxd.load(std::sync::atomic::Ordering::Relaxed), "distinct_states_summed": total_states, "per_search_listed": "the 100 searches with the most distinct states, then up to 100 searches cut by the depth bound", "per_search": pc}));
    if nf < ns {
        rep.cap(&format!("{} of {} searches were cut by the depth bound {} (all histories up to that depth were explored)", ns - nf, ns, depth));
    }
    rep.finish(&recheck);
}
