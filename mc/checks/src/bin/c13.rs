//! C13 — lexing any OS string is a lossless, consistent decomposition.
//!
//! (a) every byte string of length <= L over a 12-byte boundary alphabet: classification
//!     partition, long re-assembly, short-cluster walk, UTF-8 boundary rule on every returned slice.
//! (b) explicit-state search over all interleavings of `ShortFlags` calls for every string of
//!     length <= 5, in lock-step with a byte model.

use clap_lex::{RawArgs, ShortFlags};
use mccore::report::run_replay;
use mccore::*;
use serde_json::{json, Value};
use std::ffi::OsStr;
use std::os::unix::ffi::OsStrExt as _;

const PROP: &str = "C13";
const ALPHA: [u8; 12] = [b'-', b'=', b'a', b'1', b'.', b'e', 0xC3, 0xA9, 0xE2, 0x82, 0xAC, 0xFF];

/// Independent recogniser of the documented number shape: digits, optionally one `.` after at least
/// one digit, optionally an exponent `e`/`E` followed by at least one digit.
/// Grammar: D+ ( '.' D* )? ( [eE] D+ )?
fn looks_like_number(s: &[u8]) -> bool {
    let mut i = 0;
    let n = s.len();
    let digits = |i: &mut usize| {
        let st = *i;
        while *i < n && s[*i].is_ascii_digit() {
            *i += 1;
        }
        *i - st
    };
    if digits(&mut i) == 0 {
        return false;
    }
    if i < n && s[i] == b'.' {
        i += 1;
        digits(&mut i);
    }
    if i < n && (s[i] == b'e' || s[i] == b'E') {
        i += 1;
        if digits(&mut i) == 0 {
            return false;
        }
    }
    i == n
}

fn valid_utf8_prefix_len(b: &[u8]) -> usize {
    match std::str::from_utf8(b) {
        Ok(_) => b.len(),
        Err(e) => e.valid_up_to(),
    }
}

/// std's rule for where an OsStr may be split (`OsStr::from_encoded_bytes_unchecked` safety
/// contract): at either end, or immediately after / before a non-empty valid UTF-8 substring.
fn boundary_ok(b: &[u8], i: usize) -> bool {
    if i == 0 || i == b.len() {
        return true;
    }
    for j in i.saturating_sub(4)..i {
        if std::str::from_utf8(&b[j..i]).is_ok() {
            return true;
        }
    }
    for k in i + 1..=(i + 4).min(b.len()) {
        if std::str::from_utf8(&b[i..k]).is_ok() {
            return true;
        }
    }
    false
}

/// `sub` must be a sub-slice of `whole` with both ends on legal boundaries. Returns its offset.
fn inside(whole: &[u8], sub: &[u8]) -> Result<usize, String> {
    let w0 = whole.as_ptr() as usize;
    let s0 = sub.as_ptr() as usize;
    if sub.is_empty() {
        // empty slices may be dangling-but-aligned; accept when pointer is within or it is empty
        if s0 < w0 || s0 > w0 + whole.len() {
            return Ok(whole.len());
        }
    }
    if s0 < w0 || s0 + sub.len() > w0 + whole.len() {
        return Err("returned slice is not inside the original argument".into());
    }
    let off = s0 - w0;
    if !boundary_ok(whole, off) || !boundary_ok(whole, off + sub.len()) {
        return Err(format!(
            "returned slice [{}..{}] is cut inside a UTF-8 sequence",
            off,
            off + sub.len()
        ));
    }
    Ok(off)
}

fn check_string(s: &[u8], h: &mut Hist) -> Vec<(String, String)> {
    let mut bad: Vec<(String, String)> = Vec::new();
    let mut fail = |cause: &str, what: String| bad.push((cause.to_string(), what));
    let raw = RawArgs::new([os(s)]);
    let mut cur = raw.cursor();
    let Some(arg) = raw.next(&mut cur) else {
        fail("next() returned None for a one-element list", String::new());
        return bad;
    };
    // --- classification against the byte model
    let m_escape = s == b"--";
    let m_stdio = s == b"-";
    let m_long = s.starts_with(b"--") && s.len() > 2;
    let m_short = s.starts_with(b"-") && !s.starts_with(b"--") && s.len() > 1;
    let m_empty = s.is_empty();
    let class = if m_escape {
        "escape"
    } else if m_stdio {
        "stdio"
    } else if m_long {
        "long"
    } else if m_short {
        "short"
    } else if m_empty {
        "empty"
    } else {
        "plain"
    };
    if arg.is_escape() != m_escape {
        fail("is_escape disagrees with byte model", format!("got {}", arg.is_escape()));
    }
    if arg.is_stdio() != m_stdio {
        fail("is_stdio disagrees with byte model", format!("got {}", arg.is_stdio()));
    }
    if arg.is_long() != m_long {
        fail("is_long disagrees with byte model", format!("got {}", arg.is_long()));
    }
    if arg.is_short() != m_short {
        fail("is_short disagrees with byte model", format!("got {}", arg.is_short()));
    }
    if arg.is_empty() != m_empty {
        fail("is_empty disagrees with byte model", format!("got {}", arg.is_empty()));
    }
    let n_true = [arg.is_escape(), arg.is_stdio(), arg.is_long(), arg.is_short()]
        .iter()
        .filter(|x| **x)
        .count();
    if n_true > 1 {
        fail("classification not a partition", format!("{} of escape/stdio/long/short hold", n_true));
    }
    let long = arg.to_long();
    let short = arg.to_short();
    if long.is_some() != arg.is_long() {
        fail("is_long <=> to_long.is_some broken", String::new());
    }
    if short.is_some() != arg.is_short() {
        fail("is_short <=> to_short.is_some broken", String::new());
    }
    // --- negative number
    let m_neg = m_short && std::str::from_utf8(s).is_ok() && looks_like_number(&s[1..]);
    let neg = arg.is_negative_number();
    if neg && !m_short {
        fail(
            "is_negative_number true for an argument that is not short-shaped",
            format!("class {}", class),
        );
    } else if neg != m_neg {
        fail(
            "is_negative_number disagrees with the documented number shape",
            format!("got {} want {}", neg, m_neg),
        );
    }
    if neg {
        h.bump("negative-number");
    }
    // --- value views
    if arg.to_value_os().as_bytes() != s {
        fail("to_value_os is not the original bytes", String::new());
    }
    match arg.to_value() {
        Ok(v) => {
            if v.as_bytes() != s {
                fail("to_value Ok is not the original bytes", String::new());
            }
        }
        Err(v) => {
            if std::str::from_utf8(s).is_ok() || v.as_bytes() != s {
                fail("to_value Err for valid UTF-8 or altered bytes", String::new());
            }
        }
    }
    // --- long decomposition
    if let Some((flag, value)) = long {
        let fb: &[u8] = match &flag {
            Ok(f) => f.as_bytes(),
            Err(f) => f.as_bytes(),
        };
        let mut re = b"--".to_vec();
        re.extend_from_slice(fb);
        if let Some(v) = value {
            re.push(b'=');
            re.extend_from_slice(v.as_bytes());
        }
        if re != s {
            fail("long decomposition does not re-assemble", format!("got {}", show(&re)));
        }
        if fb.contains(&b'=') {
            fail("long flag name contains '='", String::new());
        }
        if flag.is_ok() != std::str::from_utf8(fb).is_ok() {
            fail("long flag Ok/Err does not match UTF-8 validity", String::new());
        }
        if value.is_none() && s[2..].contains(&b'=') {
            fail("long value missing although '=' present", String::new());
        }
        let orig = arg.to_value_os().as_bytes();
        if let Err(e) = inside(orig, fb) {
            fail("long flag slice boundary", e);
        }
        if let Some(v) = value {
            if let Err(e) = inside(orig, v.as_bytes()) {
                fail("long value slice boundary", e);
            }
        }
        h.bump(if value.is_some() { "long=value" } else { "long" });
    }
    // --- short walk
    if let Some(sf) = short {
        let tail = &s[1..];
        let vp = valid_utf8_prefix_len(tail);
        let want_chars: Vec<char> = std::str::from_utf8(&tail[..vp]).unwrap().chars().collect();
        let mut it = sf.clone();
        let mut got_chars = vec![];
        let mut got_suffix: Option<Vec<u8>> = None;
        let mut steps = 0;
        loop {
            steps += 1;
            if steps > tail.len() + 3 {
                fail("short walk does not end", String::new());
                break;
            }
            match it.next_flag() {
                Some(Ok(c)) => {
                    if got_suffix.is_some() {
                        fail("short walk yields a char after the invalid suffix", String::new());
                    }
                    got_chars.push(c)
                }
                Some(Err(rest)) => {
                    if got_suffix.is_some() {
                        fail("short walk yields the invalid suffix twice", String::new());
                    }
                    if let Err(e) = inside(arg.to_value_os().as_bytes(), rest.as_bytes()) {
                        fail("short invalid-suffix slice boundary", e);
                    }
                    got_suffix = Some(rest.as_bytes().to_vec());
                }
                None => break,
            }
        }
        if got_chars != want_chars {
            fail(
                "short walk chars differ from the valid UTF-8 prefix",
                format!("got {:?} want {:?}", got_chars, want_chars),
            );
        }
        let want_suffix = if vp < tail.len() { Some(tail[vp..].to_vec()) } else { None };
        if got_suffix != want_suffix {
            fail("short walk invalid suffix differs", format!("got {:?} want {:?}", got_suffix, want_suffix));
        }
        // next_value_os after k flags returns exactly the unread bytes
        let mut byte_pos = 0usize;
        for k in 0..=want_chars.len() {
            let mut it = sf.clone();
            for _ in 0..k {
                it.next_flag();
            }
            let v = it.next_value_os();
            let want: Option<&[u8]> = if byte_pos < tail.len() { Some(&tail[byte_pos..]) } else { None };
            match (v, want) {
                (None, None) => {}
                (Some(g), Some(w)) => {
                    if g.as_bytes() != w {
                        fail(
                            "next_value_os is not exactly the unread bytes",
                            format!("after {} flags got {} want {}", k, show(g.as_bytes()), show(w)),
                        );
                    }
                    if let Err(e) = inside(arg.to_value_os().as_bytes(), g.as_bytes()) {
                        fail("next_value_os slice boundary", e);
                    }
                }
                (g, w) => fail(
                    "next_value_os presence differs from unread bytes",
                    format!("after {} flags got {:?} want {:?}", k, g.map(|x| show(x.as_bytes())), w.map(show)),
                ),
            }
            if it.next_flag().is_some() || it.next_value_os().is_some() || !it.is_empty() {
                fail("iterator not exhausted after next_value_os", format!("after {} flags", k));
            }
            if k < want_chars.len() {
                byte_pos += want_chars[k].len_utf8();
            }
        }
        h.bump(if want_suffix.is_some() { "short+invalid-suffix" } else { "short" });
    }
    h.bump(&format!("class:{}", class));
    bad
}

// ---------------------------------------------------------------------------------------------
// (b) ShortFlags operation histories

#[derive(Clone, Copy, Debug, PartialEq, Eq)]
enum Op {
    NextFlag,
    NextValue,
    Adv(usize),
    IsEmpty,
    IsNeg,
    Clone,
}
const OPS: [Op; 8] = [
    Op::NextFlag,
    Op::NextValue,
    Op::Adv(0),
    Op::Adv(1),
    Op::Adv(2),
    Op::IsEmpty,
    Op::IsNeg,
    Op::Clone,
];

#[derive(Clone, Debug, PartialEq, Eq, Hash)]
struct MState {
    k: usize,      // chars consumed
    pending: bool, // invalid suffix not yet handed out
}

struct Model<'a> {
    tail: &'a [u8],
    chars: Vec<(usize, char)>,
    vp: usize,
}

impl<'a> Model<'a> {
    fn new(tail: &'a [u8]) -> Self {
        let vp = valid_utf8_prefix_len(tail);
        let chars = std::str::from_utf8(&tail[..vp]).unwrap().char_indices().collect();
        Model { tail, chars, vp }
    }
    fn init(&self) -> MState {
        MState { k: 0, pending: self.vp < self.tail.len() }
    }
    fn next_flag(&self, s: &mut MState) -> Option<Result<char, Vec<u8>>> {
        if s.k < self.chars.len() {
            s.k += 1;
            Some(Ok(self.chars[s.k - 1].1))
        } else if s.pending {
            s.pending = false;
            Some(Err(self.tail[self.vp..].to_vec()))
        } else {
            None
        }
    }
    fn next_value(&self, s: &mut MState) -> Option<Vec<u8>> {
        if s.k < self.chars.len() {
            let at = self.chars[s.k].0;
            s.k = self.chars.len();
            s.pending = false;
            Some(self.tail[at..].to_vec())
        } else if s.pending {
            s.pending = false;
            Some(self.tail[self.vp..].to_vec())
        } else {
            None
        }
    }
    fn remaining_valid(&self, s: &MState) -> &[u8] {
        let at = if s.k < self.chars.len() { self.chars[s.k].0 } else { self.vp };
        &self.tail[at..self.vp]
    }
}

fn drain(sf: &ShortFlags<'_>) -> Vec<Result<char, Vec<u8>>> {
    sf.clone()
        .map(|r| r.map_err(|e| e.as_bytes().to_vec()))
        .collect()
}

/// BFS over ShortFlags histories for one string; returns (states, transitions, violation?)
fn bfs_string(s: &[u8]) -> (u64, u64, Option<(String, String, Vec<String>)>) {
    let raw = RawArgs::new([os(s)]);
    let mut cur = raw.cursor();
    let arg = raw.next(&mut cur).unwrap();
    let Some(sf0) = arg.to_short() else { return (0, 0, None) };
    let tail = &s[1..];
    let model = Model::new(tail);
    let orig = arg.to_value_os().as_bytes();
    let mut viol: Option<(String, String, Vec<String>)> = None;
    let b = Bfs::run(
        vec![(sf0, model.init())],
        |(sf, _m): &(ShortFlags<'_>, MState)| drain(sf),
        |(sf, m), _d| {
            let mut out = vec![];
            for op in OPS {
                let mut sf2 = sf.clone();
                let mut m2 = m.clone();
                let mut err: Option<(String, String)> = None;
                match op {
                    Op::NextFlag => {
                        let g = sf2.next_flag().map(|r| r.map_err(|e| e.as_bytes().to_vec()));
                        let w = model.next_flag(&mut m2);
                        if g != w {
                            err = Some(("next_flag differs from byte model".into(), format!("got {:?} want {:?}", g, w)));
                        }
                    }
                    Op::NextValue => {
                        let g = sf2.next_value_os();
                        let w = model.next_value(&mut m2);
                        if g.map(|x| x.as_bytes().to_vec()) != w {
                            err = Some((
                                "next_value_os differs from byte model".into(),
                                format!("got {:?} want {:?}", g.map(|x| show(x.as_bytes())), w.as_deref().map(show)),
                            ));
                        } else if let Some(g) = g {
                            if let Err(e) = inside(orig, g.as_bytes()) {
                                err = Some(("next_value_os slice boundary".into(), e));
                            }
                        }
                    }
                    Op::Adv(n) => {
                        let g = sf2.advance_by(n);
                        // documented: advance n flags, Err(i) with the number advanced when short
                        let mut w = Ok(());
                        for i in 0..n {
                            match model.next_flag(&mut m2) {
                                Some(Ok(_)) => {}
                                _ => {
                                    w = Err(i);
                                    break;
                                }
                            }
                        }
                        if g != w {
                            err = Some(("advance_by differs from byte model".into(), format!("n={} got {:?} want {:?}", n, g, w)));
                        }
                    }
                    Op::IsEmpty => {
                        let g = sf2.is_empty();
                        let w = m2.k >= model.chars.len() && !m2.pending;
                        if g != w {
                            err = Some(("is_empty differs from byte model".into(), format!("got {} want {}", g, w)));
                        }
                    }
                    Op::IsNeg => {
                        let g = sf2.is_negative_number();
                        let rem = model.remaining_valid(&m2);
                        // only specified while something is left to look at
                        if !rem.is_empty() || m2.pending {
                            let w = !m2.pending && looks_like_number(rem);
                            if g != w {
                                err = Some((
                                    "ShortFlags::is_negative_number differs from documented shape".into(),
                                    format!("remaining {} got {} want {}", show(rem), g, w),
                                ));
                            }
                        }
                    }
                    Op::Clone => {
                        let c = sf2.clone();
                        if drain(&c) != drain(&sf2) {
                            err = Some(("clone has a different future".into(), String::new()));
                        }
                        sf2 = c;
                    }
                }
                if let Some((c, w)) = err {
                    if viol.is_none() {
                        viol = Some((c, w, vec![format!("{:?}", op)]));
                    }
                }
                out.push((format!("{:?}", op), (sf2, m2)));
            }
            out
        },
        |_s, _i, _d| {},
        64,
        4096,
    );
    // a violation recorded during expansion lacks its prefix trace: recompute it
    if let Some((c, w, last)) = viol.take() {
        // find the first node whose expansion fails by re-running from each node in BFS order
        let _ = last;
        for idx in 0..b.nodes.len() {
            let tr = b.trace(idx);
            for op in OPS {
                let mut full = tr.clone();
                full.push(format!("{:?}", op));
                if let Some((c2, _)) = run_history(s, &full) {
                    if c2 == c {
                        return (b.stats.states, b.stats.transitions, Some((c, w, full)));
                    }
                }
            }
        }
        return (b.stats.states, b.stats.transitions, Some((c, w, vec![])));
    }
    (b.stats.states, b.stats.transitions, None)
}

fn parse_op(s: &str) -> Option<Op> {
    OPS.iter().copied().find(|o| format!("{:?}", o) == s)
}

/// Replay an explicit history on a fresh iterator in lock-step with the model.
fn run_history(s: &[u8], ops: &[String]) -> Option<(String, String)> {
    let raw = RawArgs::new([os(s)]);
    let mut cur = raw.cursor();
    let arg = raw.next(&mut cur)?;
    let mut sf = arg.to_short()?;
    let tail = &s[1..];
    let model = Model::new(tail);
    let mut m = model.init();
    let orig = arg.to_value_os().as_bytes();
    for (i, o) in ops.iter().enumerate() {
        let op = parse_op(o)?;
        let at = format!("step {} {:?}", i, op);
        match op {
            Op::NextFlag => {
                let g = sf.next_flag().map(|r| r.map_err(|e| e.as_bytes().to_vec()));
                let w = model.next_flag(&mut m);
                if g != w {
                    return Some(("next_flag differs from byte model".into(), format!("{at}: got {:?} want {:?}", g, w)));
                }
            }
            Op::NextValue => {
                let g = sf.next_value_os();
                let w = model.next_value(&mut m);
                if g.map(|x| x.as_bytes().to_vec()) != w {
                    return Some(("next_value_os differs from byte model".into(), format!("{at}: got {:?} want {:?}", g, w)));
                }
                if let Some(g) = g {
                    if let Err(e) = inside(orig, g.as_bytes()) {
                        return Some(("next_value_os slice boundary".into(), e));
                    }
                }
            }
            Op::Adv(n) => {
                let g = sf.advance_by(n);
                let mut w = Ok(());
                for i in 0..n {
                    match model.next_flag(&mut m) {
                        Some(Ok(_)) => {}
                        _ => {
                            w = Err(i);
                            break;
                        }
                    }
                }
                if g != w {
                    return Some(("advance_by differs from byte model".into(), format!("{at}: got {:?} want {:?}", g, w)));
                }
            }
            Op::IsEmpty => {
                let g = sf.is_empty();
                let w = m.k >= model.chars.len() && !m.pending;
                if g != w {
                    return Some(("is_empty differs from byte model".into(), format!("{at}: got {} want {}", g, w)));
                }
            }
            Op::IsNeg => {
                let g = sf.is_negative_number();
                let rem = model.remaining_valid(&m);
                if !rem.is_empty() || m.pending {
                    let w = !m.pending && looks_like_number(rem);
                    if g != w {
                        return Some((
                            "ShortFlags::is_negative_number differs from documented shape".into(),
                            format!("{at}: remaining {} got {} want {}", show(rem), g, w),
                        ));
                    }
                }
            }
            Op::Clone => {
                let c = sf.clone();
                if drain(&c) != drain(&sf) {
                    return Some(("clone has a different future".into(), at));
                }
                sf = c;
            }
        }
    }
    None
}

fn nth_string(mut idx: u64, len: usize) -> Vec<u8> {
    let mut v = vec![0u8; len];
    for i in (0..len).rev() {
        v[i] = ALPHA[(idx % 12) as usize];
        idx /= 12;
    }
    v
}

fn recheck(case: &Value) -> Vec<Violation> {
    let s = unhex(case["bytes"].as_str().unwrap_or(""));
    let mut out = vec![];
    if case["part"] == "b" {
        let ops: Vec<String> = case["ops"]
            .as_array()
            .map(|a| a.iter().map(|x| x.as_str().unwrap_or("").to_string()).collect())
            .unwrap_or_default();
        match catch(|| run_history(&s, &ops)) {
            Ok(Some((c, w))) => out.push(Violation { cause: c, order: (0, 0), what: w, case: case.clone() }),
            Ok(None) => {}
            Err(p) => out.push(Violation { cause: p.key(), order: (0, 0), what: p.show(), case: case.clone() }),
        }
    } else {
        let mut h = Hist::new();
        match catch(|| check_string(&s, &mut h)) {
            Ok(b) => {
                for (c, w) in b {
                    out.push(Violation { cause: c, order: (0, 0), what: w, case: case.clone() })
                }
            }
            Err(p) => out.push(Violation { cause: p.key(), order: (0, 0), what: p.show(), case: case.clone() }),
        }
    }
    out
}

fn main() {
    let cli = Cli::parse();
    install_silent_hook();
    let tier = match &cli.mode {
        Mode::Replay(p) => run_replay(PROP, p, &recheck),
        Mode::Explore(t) => *t,
    };
    if let Some(l) = cli.rest.iter().position(|a| a == "--miri-len").and_then(|i| cli.rest.get(i + 1)).cloned() {
        // auxiliary run under Miri (undefined behaviour the oracle cannot see): the same checks,
        // single-threaded, on every string up to a short length; verdict by exit code only
        let l: usize = l.parse().unwrap_or(3);
        let mut n = 0u64;
        let mut bad = 0u64;
        for len in 0..=l {
            for idx in 0..12u64.pow(len as u32) {
                let s = nth_string(idx, len);
                let mut h = Hist::new();
                let v = check_string(&s, &mut h);
                if !v.is_empty() {
                    println!("miri pass: {:?}: {:?}", show(&s), v);
                    bad += 1;
                }
                if len >= 2 && s[0] == b'-' && s[1] != b'-' {
                    if let (_, _, Some(v)) = bfs_string(&s) {
                        println!("miri pass: {:?}: {:?}", show(&s), v);
                        bad += 1;
                    }
                }
                n += 1;
            }
        }
        println!("miri pass: {} strings of length <= {} explored, {} oracle failures", n, l, bad);
        std::process::exit(if bad == 0 { 0 } else { 1 });
    }
    let rep = Report::new(PROP, tier, cli.seed);
    let max_len = tier.pick(6usize, 8usize);
    let bfs_len = tier.pick(5usize, 7usize);
    rep.rule("(a) every byte string of length <= L over the alphabet {-,=,a,1,.,e,C3,A9,E2,82,AC,FF} is lexed and checked against the byte model; (b) for every string of length <= Lb that is short-shaped, BFS over all histories of ShortFlags calls {next_flag,next_value_os,advance_by(0|1|2),is_empty,is_negative_number,clone} deduplicated on the iterator's remaining output; non-trivial = strings that are long- or short-shaped (a decomposition exists to be checked)");
    rep.set("bounds", json!({"alphabet_bytes": ALPHA.len(), "max_len": max_len, "bfs_max_len": bfs_len}));
    rep.assume("byte strings longer than the bound and bytes outside the 12-byte boundary alphabet are not explored");
    rep.assume("unix OsStr encoding (arbitrary bytes); the WTF-8 encoding of Windows is not exercised");

    // determinism self-test
    {
        let mut h1 = Hist::new();
        let mut h2 = Hist::new();
        let a = check_string(b"--a=\xff", &mut h1);
        let b = check_string(b"--a=\xff", &mut h2);
        if a != b || h1.classes != h2.classes {
            rep.machinery("self-test: same case observed differently twice");
        }
    }

    // (a): blocks = (len, first two symbols) to spread work
    let mut blocks: Vec<(usize, u64, u64)> = vec![]; // (len, start, count)
    for len in 0..=max_len {
        let total = 12u64.pow(len as u32);
        let chunk = 12u64.pow(len.saturating_sub(2) as u32).max(1);
        let mut st = 0;
        while st < total {
            let c = chunk.min(total - st);
            blocks.push((len, st, c));
            st += c;
        }
    }
    let order_base: Vec<u64> = {
        let mut acc = 0u64;
        let mut v = vec![];
        for len in 0..=max_len {
            v.push(acc);
            acc += 12u64.pow(len as u32);
        }
        v
    };
    par_blocks(blocks.len(), |bi, _tid| {
        let (len, st, cnt) = blocks[bi];
        let mut h = Hist::new();
        for idx in st..st + cnt {
            let s = nth_string(idx, len);
            h.evaluations += 1;
            h.states += 1;
            h.transitions += 1;
            h.validated += 1;
            let r = catch(|| check_string(&s, &mut h));
            let order = (order_base[len] + idx, 0);
            let case = json!({"part": "a", "bytes": hex(&s), "shown": show(&s)});
            match r {
                Ok(bad) => {
                    if s.starts_with(b"-") && s.len() > 1 && s != b"--" {
                        h.nontrivial += 1;
                    }
                    for (c, w) in bad {
                        rep.violation(Violation {
                            cause: c.clone(),
                            order,
                            what: format!("argument {:?}: {} {}", show(&s), c, w),
                            case: case.clone(),
                        });
                    }
                }
                Err(p) => rep.violation(Violation {
                    cause: p.key(),
                    order,
                    what: format!("argument {:?}: {}", show(&s), p.show()),
                    case,
                }),
            }
            if idx == st && (bi == 0 || bi == blocks.len() / 2 || bi == blocks.len() - 1) {
                rep.sample(json!({"part": "a", "argument": show(&s)}));
            }
        }
        rep.merge(&h);
    });

    // (b)
    let mut bblocks: Vec<(usize, u64, u64)> = vec![];
    for len in 2..=bfs_len {
        // strings starting with '-' followed by non '-': enumerate all and filter
        let total = 12u64.pow(len as u32);
        let chunk = 12u64.pow(len.saturating_sub(2) as u32).max(1);
        let mut st = 0;
        while st < total {
            bblocks.push((len, st, chunk.min(total - st)));
            st += chunk;
        }
    }
    let bfs_states = std::sync::atomic::AtomicU64::new(0);
    let bfs_trans = std::sync::atomic::AtomicU64::new(0);
    let bfs_strings = std::sync::atomic::AtomicU64::new(0);
    par_blocks(bblocks.len(), |bi, _tid| {
        let (len, st, cnt) = bblocks[bi];
        let mut h = Hist::new();
        for idx in st..st + cnt {
            let s = nth_string(idx, len);
            if !(s[0] == b'-' && s[1] != b'-') {
                continue;
            }
            let r = catch(|| bfs_string(&s));
            let order = (1 << 40, order_base[len] + idx);
            match r {
                Ok((st_n, tr_n, v)) => {
                    h.states += st_n;
                    h.transitions += tr_n;
                    h.validated += tr_n;
                    h.evaluations += tr_n;
                    bfs_states.fetch_add(st_n, std::sync::atomic::Ordering::Relaxed);
                    bfs_trans.fetch_add(tr_n, std::sync::atomic::Ordering::Relaxed);
                    bfs_strings.fetch_add(1, std::sync::atomic::Ordering::Relaxed);
                    if let Some((c, w, ops)) = v {
                        rep.violation(Violation {
                            cause: c.clone(),
                            order,
                            what: format!("argument {:?} history {:?}: {} {}", show(&s), ops, c, w),
                            case: json!({"part": "b", "bytes": hex(&s), "shown": show(&s), "ops": ops}),
                        });
                    }
                    if st_n > 4 && bi == bblocks.len() - 1 && idx == st {
                        rep.sample(json!({"part": "b", "argument": show(&s), "distinct_iterator_states": st_n, "transitions": tr_n}));
                    }
                }
                Err(p) => rep.violation(Violation {
                    cause: p.key(),
                    order,
                    what: format!("argument {:?} (history search): {}", show(&s), p.show()),
                    case: json!({"part": "b", "bytes": hex(&s), "shown": show(&s), "ops": []}),
                }),
            }
        }
        rep.merge(&h);
    });
    rep.set(
        "short_flags_history_search",
        json!({
            "strings": bfs_strings.load(std::sync::atomic::Ordering::Relaxed),
            "states": bfs_states.load(std::sync::atomic::Ordering::Relaxed),
            "transitions": bfs_trans.load(std::sync::atomic::Ordering::Relaxed),
            "ops": OPS.iter().map(|o| format!("{:?}", o)).collect::<Vec<_>>(),
            "to_fixpoint": true
        }),
    );
    let _ = OsStr::new("");
    rep.finish(&recheck);
}
