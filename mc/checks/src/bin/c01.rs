//! C01 — parsing is total: any argv against any valid command returns, never panics.
//!
//! Space: dev(d) configurations (base command + every set of <= d deviations from a ~70-entry
//! catalogue) that the library's own validity gate accepts x every argv in A(cfg)^{<=L}, each also
//! parsed with error-ignoring enabled. Iterative bounds: (d=1, L=3) and (d=2, L=2) quick;
//! (d=2, L=3), (d=3, L=2) and (d=1, L=4) thorough.
//! Oracle: returns (no unwind, no stall, no process death — E3 supervisor); errors render;
//! with error-ignoring: Ok unless kind is DisplayHelp/DisplayVersion and argv spells a request.

use mccore::report::run_replay;
use mccore::sup::{self, Journal};
use mccore::*;
use mcmodel::dev::{alphabet, dev_configs};
use mcmodel::*;
use serde_json::{json, Value};

const PROP: &str = "C01";

fn has_request(argv: &[Vec<u8>]) -> bool {
    argv.iter().any(|t| {
        (t.starts_with(b"-") && !t.starts_with(b"--") && (t.contains(&b'h') || t.contains(&b'V')))
            || t.starts_with(b"--h")
            || t.starts_with(b"--v")
            || (!t.is_empty() && b"help".starts_with(t))
    })
}

/// Run one parse and apply the oracle. Returns (class label, violations)
fn one(cmd: &clap::Command, spec: &CmdSpec, argv: &[Vec<u8>], ignoring: bool) -> (String, Vec<(String, String)>) {
    let mut bad = vec![];
    let r = catch(|| {
        let full: Vec<std::ffi::OsString> = if spec.has(Setting::NoBinaryName) || spec.has(Setting::Multicall) {
            argv.iter().map(|a| os(a)).collect()
        } else {
            argv_os("prog", argv)
        };
        cmd.clone().try_get_matches_from(full)
    });
    let label;
    match r {
        Err(p) => {
            label = "PANIC".to_string();
            bad.push((p.key(), format!("parse panicked: {}", p.show())));
        }
        Ok(Ok(m)) => {
            label = "Ok".to_string();
            // matches must be readable
            if let Err(p) = catch(|| obs(&m, spec)) {
                bad.push((format!("reading matches: {}", p.key()), p.show()));
            }
        }
        Ok(Err(e)) => {
            let k = e.kind();
            label = format!("{:?}", k);
            match catch(|| {
                let r = e.render().to_string();
                let d = e.to_string();
                let _ = e.exit_code();
                let _ = e.use_stderr();
                let _ = e.render().ansi().to_string();
                (r, d)
            }) {
                Ok((r, d)) => {
                    if r.trim().is_empty() || d.trim().is_empty() {
                        bad.push(("error renders to nothing".into(), format!("kind {:?}", k)));
                    }
                }
                Err(p) => bad.push((format!("rendering error: {}", p.key()), p.show())),
            }
            if ignoring {
                let is_req = matches!(k, clap::error::ErrorKind::DisplayHelp | clap::error::ErrorKind::DisplayVersion);
                if !is_req {
                    bad.push((
                        format!("error-ignoring parse returned Err({:?})", k),
                        "ignore_errors(true) must yield matches for everything but a help/version request".into(),
                    ));
                } else if !has_request(argv) {
                    bad.push((
                        format!("error-ignoring parse returned {:?} without a request in argv", k),
                        String::new(),
                    ));
                }
            }
        }
    }
    (label, bad)
}

struct Block {
    devs: Vec<&'static str>,
    spec: CmdSpec,
    max_len: usize,
}

fn blocks_for(tier: Tier) -> Vec<Block> {
    let mut out = vec![];
    let plan: Vec<(usize, usize)> = match tier {
        // (d, L): all configurations with exactly d deviations get argv up to L
        Tier::Quick => vec![(0, 3), (1, 3), (2, 2)],
        Tier::Thorough => vec![(0, 4), (1, 4), (2, 3), (3, 2)],
    };
    let maxd = plan.iter().map(|p| p.0).max().unwrap();
    for (devs, spec) in dev_configs(maxd) {
        let mut l = plan.iter().find(|p| p.0 == devs.len()).map(|p| p.1).unwrap_or(2);
        // quick tier: pairs of (a command-level setting, a deviation of the subcommand) get one
        // token more — dispatch into a subcommand while something is pending needs three tokens
        if tier == Tier::Quick && devs.len() == 2 && devs.iter().any(|d| d.starts_with("sub_") || d.starts_with("second_sub")) && !spec.settings.is_empty() {
            l = 3;
        }
        out.push(Block { devs, spec, max_len: l });
    }
    out.extend(requirement_blocks(match tier { Tier::Quick => 2, Tier::Thorough => 3 }));
    out
}

/// Second family: requirement graphs. Every set of <= 3 edges from the `requires`-like edges of the
/// relation catalogue (requires between a,b,c,o, requires a group, requires_if, group requires) on
/// the relation base command — termination of the requirement unrolling is a C01 matter.
fn requirement_blocks(max_len: usize) -> Vec<Block> {
    let cat = mcmodel::rel::catalogue();
    let idx: Vec<usize> = cat.iter().enumerate().filter(|(_, e)| e.name.contains("requires")).map(|(i, _)| i).collect();
    let mut out = vec![];
    for set in subsets_upto(idx.len(), 3) {
        if set.is_empty() {
            continue;
        }
        let mut c = mcmodel::rel::base();
        let mut names: Vec<&'static str> = vec!["requirement-graph"];
        for &k in &set {
            (cat[idx[k]].apply)(&mut c);
            names.push(Box::leak(cat[idx[k]].name.clone().into_boxed_str()));
        }
        out.push(Block { devs: names, spec: c, max_len });
    }
    out
}

fn rel_alphabet() -> Vec<Vec<u8>> {
    mcmodel::rel::TOKENS.iter().map(|t| t.as_bytes().to_vec()).collect()
}

fn alphabet_of(b: &Block) -> Vec<Vec<u8>> {
    if b.devs.first() == Some(&"requirement-graph") {
        rel_alphabet()
    } else {
        alphabet(&b.spec)
    }
}

fn case_json(b: &Block, argv: &[Vec<u8>], ignoring: bool) -> Value {
    json!({
        "deviations": b.devs,
        "spec": b.spec.to_json(),
        "argv_hex": hex_argv(argv),
        "argv_shown": show_argv(argv),
        "ignore_errors": ignoring,
    })
}

fn recheck(case: &Value) -> Vec<Violation> {
    let Ok(spec) = CmdSpec::from_json(&case["spec"]) else { return vec![] };
    let argv = unhex_argv(&case["argv_hex"]);
    let ignoring = case["ignore_errors"].as_bool().unwrap_or(false);
    let mut s = spec.clone();
    if ignoring {
        s.set(Setting::IgnoreErrors);
    }
    let Ok(cmd) = build_valid(&s) else { return vec![] };
    let (_, bad) = one(&cmd, &s, &argv, ignoring || s.has(Setting::IgnoreErrors));
    bad.into_iter()
        .map(|(c, w)| Violation { cause: c, order: (0, 0), what: w, case: case.clone() })
        .collect()
}

fn main() {
    let cli = Cli::parse();
    install_silent_hook();
    fix_env();
    let tier = match &cli.mode {
        Mode::Replay(p) => run_replay(PROP, p, &recheck),
        Mode::Explore(t) => *t,
    };
    sup::supervise(PROP, &cli);
    let journal: &'static Journal = Box::leak(Box::new(if std::env::var_os("CLAPMC_CHILD").is_some() {
        Journal::create(PROP)
    } else {
        Journal::dummy()
    }));
    let single = sup::single_case(&cli);
    if single.is_none() {
        journal.start_watchdog("C01");
    }
    let rep = Report::new(PROP, tier, cli.seed);
    let blocks = blocks_for(tier);
    rep.rule("block = one dev(d) configuration accepted by clap's own debug-assert validity gate; case = one argv from the prefix tree A(cfg)^{<=L} (A = 28..40 tokens derived from the configuration, incl. non-UTF-8), parsed twice (plain and ignore_errors). states = prefix-tree nodes x 2, transitions = edges. non-trivial = parses that got past the first token into a subcommand, a pending option or an error other than UnknownArgument on the first token — counted as executions whose outcome class is not 'UnknownArgument' with argv length 1");
    rep.assume("validity gate = Command::build() under debug assertions; rejected configurations are outside the quantifier and skipped");
    rep.assume("bounds: <= d simultaneous deviations, argv length <= L as listed in coverage.bounds; longer argv / more deviations are not explored");
    rep.assume("build profile opt-level 2 + debug-assertions + overflow-checks; clap features default+derive+env+wrap_help+unicode+string");

    if let Some((b, c)) = single {
        // supervisor isolation: run exactly one case
        let blk = &blocks[b as usize];
        let Ok(cmd) = build_valid(&blk.spec) else { std::process::exit(0) };
        if let Some(v) = mccore::report::load_valid(PROP) {
            if !cfg!(debug_assertions) && !v.contains(&(b as usize)) {
                std::process::exit(0);
            }
        }
        let mut si = blk.spec.clone();
        si.set(Setting::IgnoreErrors);
        let cmd_i = build_valid(&si).ok();
        let alpha = alphabet_of(blk);
        let mut idx = 0u64;
        let mut found: Option<Vec<Vec<u8>>> = None;
        for_each_seq(alpha.len(), blk.max_len, |s| {
            if idx == c / 2 {
                found = Some(s.iter().map(|i| alpha[*i].clone()).collect());
            }
            idx += 1;
        });
        let argv = found.unwrap_or_default();
        let ignoring = c % 2 == 1;
        sup::describe_case(PROP, &case_json(blk, &argv, ignoring));
        let (_, bad) = if ignoring { one(cmd_i.as_ref().unwrap_or(&cmd), &si, &argv, true) } else { one(&cmd, &blk.spec, &argv, false) };
        std::process::exit(if bad.is_empty() { 0 } else { 1 });
    }

    // determinism self-test
    {
        let b = &blocks[0];
        let cmd = build_valid(&b.spec).unwrap_or_else(|p| rep.machinery(&format!("base configuration rejected by the gate: {}", p.show())));
        let a1 = parse(&cmd, &b.spec, &[b"-a".to_vec(), b"--opt=v".to_vec(), b"sub".to_vec()]);
        let a2 = parse(&cmd, &b.spec, &[b"-a".to_vec(), b"--opt=v".to_vec(), b"sub".to_vec()]);
        if a1 != a2 {
            rep.machinery("self-test: base configuration does not parse `-a --opt=v sub` deterministically");
        }
    }

    // release-profile pass: the gate does not exist there; explore what the debug pass accepted
    let valid: Option<std::collections::HashSet<usize>> = if cfg!(debug_assertions) {
        None
    } else {
        Some(mccore::report::load_valid(PROP).unwrap_or_else(|| rep.machinery("release pass needs the debug pass's .work/C01.valid.json (run `./check C01 thorough`)")))
    };
    let accepted_list: std::sync::Mutex<Vec<usize>> = Default::default();
    let rejected = std::sync::atomic::AtomicU64::new(0);
    let accepted = std::sync::atomic::AtomicU64::new(0);
    let by_d: Vec<std::sync::atomic::AtomicU64> = (0..4).map(|_| Default::default()).collect();
    par_blocks(blocks.len(), |bi, tid| {
        let b = &blocks[bi];
        let mut h = Hist::new();
        let cmd = match &valid {
            Some(v) => {
                if !v.contains(&bi) {
                    rejected.fetch_add(1, std::sync::atomic::Ordering::Relaxed);
                    return;
                }
                build(&b.spec)
            }
            None => match build_valid(&b.spec) {
                Ok(c) => c,
                Err(_) => {
                    rejected.fetch_add(1, std::sync::atomic::Ordering::Relaxed);
                    return;
                }
            },
        };
        accepted_list.lock().unwrap().push(bi);
        accepted.fetch_add(1, std::sync::atomic::Ordering::Relaxed);
        if b.devs.first() != Some(&"requirement-graph") {
            by_d[b.devs.len().min(3)].fetch_add(1, std::sync::atomic::Ordering::Relaxed);
        }
        let mut si = b.spec.clone();
        si.set(Setting::IgnoreErrors);
        let cmd_i = build_valid(&si).ok();
        let alpha = alphabet_of(b);
        let mut argv: Vec<Vec<u8>> = Vec::new();
        let mut idx = 0u64;
        for_each_seq(alpha.len(), b.max_len, |s| {
            argv.clear();
            argv.extend(s.iter().map(|i| alpha[*i].clone()));
            for ignoring in [false, true] {
                let (c, sp) = if ignoring {
                    match &cmd_i {
                        Some(c) => (c, &si),
                        None => continue,
                    }
                } else {
                    (&cmd, &b.spec)
                };
                journal.begin(tid, bi as u64, idx * 2 + ignoring as u64);
                // error-ignoring may also be in effect through the configuration itself (switched
                // on inside `Command::defer`)
                let (label, bad) = one(c, sp, &argv, ignoring || sp.has(Setting::IgnoreErrors));
                journal.end(tid);
                h.evaluations += 1;
                h.states += 1;
                if !argv.is_empty() {
                    h.transitions += 1;
                }
                if !(argv.len() <= 1 && label == "UnknownArgument") {
                    h.nontrivial += 1;
                }
                if ignoring {
                    h.bump(&format!("ignore_errors:{}", label));
                } else {
                    h.bump(&label);
                }
                for (cause, what) in bad {
                    rep.violation(Violation {
                        cause: cause.clone(),
                        order: ((b.devs.len() as u64) << 32 | bi as u64, idx * 2 + ignoring as u64),
                        what: format!(
                            "deviations {:?} argv {:?}{}: {} {}",
                            b.devs,
                            argv.iter().map(|a| show(a)).collect::<Vec<_>>(),
                            if ignoring { " (ignore_errors)" } else { "" },
                            cause,
                            what
                        ),
                        case: case_json(b, &argv, ignoring),
                    });
                }
            }
            idx += 1;
        });
        if bi == 0 || bi == blocks.len() / 2 || bi == blocks.len() - 1 {
            rep.sample(json!({"deviations": b.devs, "alphabet": alpha.iter().map(|a| show(a)).collect::<Vec<_>>(), "max_argv_len": b.max_len, "last_argv": show_argv(&argv)}));
        }
        rep.merge(&h);
    });
    if cfg!(debug_assertions) {
        let mut v = accepted_list.into_inner().unwrap();
        v.sort();
        mccore::report::save_valid(PROP, &v);
    }
    rep.set(
        "bounds",
        json!({
            "plan_(deviations,max_argv_len)": match tier { Tier::Quick => json!([[0,3],[1,3],[2,2]]), Tier::Thorough => json!([[0,4],[1,4],[2,3],[3,2]]) },
            "catalogue_size": mcmodel::dev::catalogue().len(),
            "requirement_graphs_(<=3_requires-like_edges)": requirement_blocks(1).len(),
            "configurations_enumerated": blocks.len(),
            "configurations_rejected_by_validity_gate": rejected.load(std::sync::atomic::Ordering::Relaxed),
            "configurations_explored": accepted.load(std::sync::atomic::Ordering::Relaxed),
            "explored_by_deviation_count": by_d.iter().map(|x| x.load(std::sync::atomic::Ordering::Relaxed)).collect::<Vec<_>>(),
        }),
    );
    rep.finish(&recheck);
}
