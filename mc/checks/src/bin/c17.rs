//! C17 — descriptive text can never change the structure of a generated script.
//!
//! Space: every descriptive-text slot (command about, subcommand about, help of a flag / option /
//! positional, possible-value help; one at a time and all at once) x every string of <= k atoms over
//! 29 hostile atoms (bare and flanked by `x`…`y`) x 6 generators.
//! Oracle: structure(script with hostile text) == structure(script with innocuous text of the same
//! emptiness), where structure abstracts the content of string literals and comments:
//! bash — byte-identical output and real `bash -n`; nushell — the real nushell parser (nu-parser):
//! zero parse errors and the same flattened shape sequence; zsh / fish / PowerShell / elvish —
//! lexical models of their quoting rules (R9).

use clap_complete::aot::{generate, Bash, Elvish, Fish, PowerShell, Zsh};
use clap_complete_nushell::Nushell;
use mccore::report::run_replay;
use mccore::*;
use mcmodel::*;
use serde_json::{json, Value};

const PROP: &str = "C17";
const GENS: [&str; 6] = ["bash", "zsh", "fish", "powershell", "elvish", "nushell"];
const SLOTS: [&str; 7] = ["about", "sub_about", "flag_help", "opt_help", "pos_help", "pv_help", "all"];
const ATOMS: [&str; 29] = [
    "'", "\"", "\\", "$", "`", "$(x)", "(", ")", "[", "]", "{", "}", ":", ";", ",", "#", "|", "&", "!", "*", " ", "\n", "\r", "\t", "‘", "’", "‚", "é", "‛",
];

fn gen(which: &str, spec: &CmdSpec) -> String {
    let mut c = build(spec);
    let mut buf: Vec<u8> = vec![];
    match which {
        "bash" => generate(Bash, &mut c, "prog", &mut buf),
        "zsh" => generate(Zsh, &mut c, "prog", &mut buf),
        "fish" => generate(Fish, &mut c, "prog", &mut buf),
        "powershell" => generate(PowerShell, &mut c, "prog", &mut buf),
        "elvish" => generate(Elvish, &mut c, "prog", &mut buf),
        _ => generate(Nushell, &mut c, "prog", &mut buf),
    }
    String::from_utf8_lossy(&buf).to_string()
}

fn spec_with(slot: &str, text: &str) -> CmdSpec {
    // `slot@N`: the same tree with every long name and the positional's name N characters long
    // (generators pad descriptions to a column, so the layout depends on the name widths)
    let (slot, width) = match slot.split_once('@') {
        Some((s, n)) => (s, n.parse::<usize>().ok()),
        None => (slot, None),
    };
    let name = |base: &str, lead: char| -> String {
        match width {
            Some(n) => std::iter::once(lead).chain(std::iter::repeat('n').take(n.saturating_sub(1))).collect(),
            None => base.to_string(),
        }
    };
    let t = |s: &str| -> Option<String> { Some(if slot == s || slot == "all" { text.to_string() } else { "plain text".to_string() }) };
    let mut c = CmdSpec::new("prog");
    c.about = t("about");
    let mut f = ArgSpec::flag("flag", Some('f'), Some(&name("flag", 'f')));
    f.help = t("flag_help");
    f.visible_aliases.push(name("flagalias", 'g'));
    f.visible_short_aliases.push('F');
    let mut o = ArgSpec::opt("opt", Some('o'), Some(&name("opt", 'o')));
    o.help = t("opt_help");
    o.visible_short_aliases.push('O');
    o.parser = Vp::Pv(vec![PvSpec { name: "one".into(), help: t("pv_help"), ..Default::default() }, PvSpec { name: "two".into(), help: Some("plain".into()), ..Default::default() }]);
    let mut p = ArgSpec::pos(&name("pos", 'p'), 1);
    p.help = t("pos_help");
    let mut s = CmdSpec::new("sub");
    s.about = t("sub_about");
    // generators emit a separate entry per visible alias
    s.visible_aliases.push("subalias".into());
    let mut sf = ArgSpec::flag("subflag", None, Some(&name("subflag", 's')));
    sf.help = t("flag_help");
    sf.short = Some('s');
    sf.visible_short_aliases.push('S');
    s.args.push(sf);
    c.args = vec![f, o, p];
    c.subs.push(s);
    c
}

// ---- R9: lexical skeletons

#[derive(Clone, Copy, PartialEq)]
enum SqEsc {
    None,
    Doubled,
    Backslash,
}

struct Rules {
    sq_delims: &'static [char],
    sq_esc: SqEsc,
    sq_bs_set: &'static [char],
    dq_esc: char,
    dq_structural: &'static [char],
    bare_esc: Option<char>,
}

fn rules(shell: &str) -> Rules {
    match shell {
        "zsh" => Rules { sq_delims: &['\''], sq_esc: SqEsc::None, sq_bs_set: &[], dq_esc: '\\', dq_structural: &['$', '`'], bare_esc: Some('\\') },
        "fish" => Rules { sq_delims: &['\''], sq_esc: SqEsc::Backslash, sq_bs_set: &['\'', '\\'], dq_esc: '\\', dq_structural: &['$'], bare_esc: Some('\\') },
        "powershell" => Rules { sq_delims: &['\'', '‘', '’', '‚', '‛'], sq_esc: SqEsc::Doubled, sq_bs_set: &[], dq_esc: '`', dq_structural: &['$'], bare_esc: Some('`') },
        _ => Rules { sq_delims: &['\''], sq_esc: SqEsc::Doubled, sq_bs_set: &[], dq_esc: '\\', dq_structural: &[], bare_esc: None },
    }
}

/// The script with every literal piece (quoted string, escaped character) replaced by `§`, runs of
/// adjacent pieces collapsed, comments removed; expansion characters inside double quotes and
/// everything outside literals kept verbatim.
fn skeleton(shell: &str, script: &str) -> String {
    let r = rules(shell);
    let cs: Vec<char> = script.chars().collect();
    let mut out = String::new();
    let mut i = 0;
    #[derive(PartialEq)]
    enum St {
        Normal,
        Sq,
        Dq,
    }
    let mut st = St::Normal;
    while i < cs.len() {
        let c = cs[i];
        match st {
            St::Normal => {
                let word_start = i == 0 || cs[i - 1].is_whitespace() || matches!(cs[i - 1], ';' | '(' | '{' | '|' | '&');
                if c == '#' && word_start {
                    while i < cs.len() && cs[i] != '\n' {
                        i += 1;
                    }
                    continue;
                }
                if r.sq_delims.contains(&c) {
                    out.push('§');
                    st = St::Sq;
                } else if c == '"' {
                    out.push('§');
                    st = St::Dq;
                } else if Some(c) == r.bare_esc && i + 1 < cs.len() {
                    out.push('§');
                    i += 1;
                } else {
                    out.push(c);
                }
            }
            St::Sq => {
                if r.sq_esc == SqEsc::Backslash && c == '\\' && i + 1 < cs.len() && r.sq_bs_set.contains(&cs[i + 1]) {
                    i += 1;
                } else if r.sq_delims.contains(&c) {
                    if r.sq_esc == SqEsc::Doubled && i + 1 < cs.len() && r.sq_delims.contains(&cs[i + 1]) {
                        i += 1;
                    } else {
                        st = St::Normal;
                    }
                }
            }
            St::Dq => {
                if c == r.dq_esc && i + 1 < cs.len() {
                    i += 1;
                } else if c == '"' {
                    st = St::Normal;
                } else if r.dq_structural.contains(&c) {
                    out.push(c);
                }
            }
        }
        i += 1;
    }
    if st != St::Normal {
        out.push_str("<UNTERMINATED-LITERAL>");
    }
    // adjacent literal pieces ('a'\''b', 'a'"b") form one shell word: collapse them
    while out.contains("§§") {
        out = out.replace("§§", "§");
    }
    out
}

fn first_diff(a: &str, b: &str) -> String {
    let (ca, cb): (Vec<char>, Vec<char>) = (a.chars().collect(), b.chars().collect());
    let n = ca.iter().zip(cb.iter()).take_while(|(x, y)| x == y).count();
    let ctx = |v: &Vec<char>| v[n.saturating_sub(30)..(n + 30).min(v.len())].iter().collect::<String>();
    format!("at char {}: {:?} vs baseline {:?}", n, ctx(&ca), ctx(&cb))
}

fn bash_n(script: &str, tag: &str) -> Result<(), String> {
    let dir = mccore::report::verif_root().join(".work").join("c17");
    let _ = std::fs::create_dir_all(&dir);
    let p = dir.join(format!("{}.bash", tag));
    std::fs::write(&p, script).map_err(|e| e.to_string())?;
    let o = std::process::Command::new("bash").arg("-n").arg(&p).output().map_err(|e| e.to_string())?;
    let _ = std::fs::remove_file(&p);
    if o.status.success() {
        Ok(())
    } else {
        Err(String::from_utf8_lossy(&o.stderr).lines().next().unwrap_or("").to_string())
    }
}

struct Baseline {
    scripts: Vec<String>,
    skels: Vec<String>,
    nu: (usize, Vec<String>),
}

fn baseline(slot: &str, empty: bool) -> Baseline {
    let spec = spec_with(slot, if empty { "" } else { "xy" });
    let scripts: Vec<String> = GENS.iter().map(|g| gen(g, &spec)).collect();
    let skels = GENS.iter().zip(scripts.iter()).map(|(g, s)| skeleton(g, s)).collect();
    let nu = nulex::structure(&scripts[5]);
    Baseline { scripts, skels, nu }
}

fn check(slot: &str, text: &str, base: &Baseline, tag: &str) -> Vec<(String, String)> {
    let mut bad = vec![];
    let spec = spec_with(slot, text);
    for (gi, g) in GENS.iter().enumerate() {
        let script = match catch(|| gen(g, &spec)) {
            Ok(s) => s,
            Err(p) => {
                bad.push((format!("{}: generator panics: {}", g, p.key()), p.show()));
                continue;
            }
        };
        let slot_name = |s: &str| {
            let s = s.split('@').next().unwrap_or(s);
            if s == "all" { "some slot".to_string() } else { format!("slot `{}`", s) }
        };
        match *g {
            "bash" => {
                if script != base.scripts[gi] {
                    bad.push((format!("bash: descriptive text in {} changes the script", slot_name(slot)), first_diff(&script, &base.scripts[gi])));
                    if let Err(e) = bash_n(&script, tag) {
                        bad.push(("bash: script with descriptive text is rejected by bash -n".into(), e));
                    }
                }
            }
            "nushell" => {
                let (errs, shapes) = nulex::structure(&script);
                if errs != base.nu.0 || shapes != base.nu.1 {
                    bad.push((
                        format!("nushell: descriptive text in {} changes what the nushell parser sees", slot_name(slot)),
                        format!("parse errors {} (baseline {}), {} shapes (baseline {}); first error: {:?}", errs, base.nu.0, shapes.len(), base.nu.1.len(), nulex::first_error(&script)),
                    ));
                }
            }
            sh => {
                let sk = skeleton(sh, &script);
                if sk != base.skels[gi] {
                    bad.push((format!("{}: descriptive text in {} escapes its string literal", sh, slot_name(slot)), first_diff(&sk, &base.skels[gi])));
                }
            }
        }
    }
    bad
}

fn strings(k: usize) -> Vec<String> {
    let mut out: Vec<String> = vec![];
    for_each_seq(ATOMS.len(), k, |s| {
        if s.is_empty() {
            return;
        }
        let core: String = s.iter().map(|i| ATOMS[*i]).collect();
        out.push(core.clone());
        out.push(format!("x{}y", core));
    });
    out
}

fn recheck(case: &Value) -> Vec<Violation> {
    let slot = case["slot"].as_str().unwrap_or("about").to_string();
    let text = String::from_utf8_lossy(&unhex(case["text_hex"].as_str().unwrap_or(""))).to_string();
    let base = baseline(&slot, text.is_empty());
    match catch(|| check(&slot, &text, &base, "replay")) {
        Ok(b) => b.into_iter().map(|(c, w)| Violation { cause: c, order: (0, 0), what: w, case: case.clone() }).collect(),
        Err(p) => vec![Violation { cause: p.key(), order: (0, 0), what: p.show(), case: case.clone() }],
    }
}

fn main() {
    let cli = Cli::parse();
    install_silent_hook();
    fix_env();
    let tier = match &cli.mode {
        Mode::Replay(p) => run_replay(PROP, p, &recheck),
        Mode::Explore(t) => *t,
    };
    let rep = Report::new(PROP, tier, cli.seed);
    let k = tier.pick(2usize, 3usize);
    let strs = strings(k);
    rep.rule("block = (slot, chunk of strings); case = one hostile string put into the slot (or into all slots at once), all 6 generators run and their output reduced to its token structure (bash: the bytes themselves + bash -n; nushell: parse errors and flattened shape kinds from the real nu-parser; zsh/fish/PowerShell/elvish: script with string-literal contents and comments removed under a lexical model of the shell's quoting rules) and compared with the structure for innocuous text. non-trivial = all cases (every one is a full comparison over 6 generators)");
    rep.set("bounds", json!({"atoms": ATOMS, "max_atoms": k, "strings": strs.len(), "slots": SLOTS, "name_width_sweep": "all slots at once with long/positional names of every length 1..=40", "generators": GENS}));
    rep.assume("zsh, fish, PowerShell and elvish are judged by lexical models of their quoting rules only (single quotes, double quotes with their escape character and expansion characters, backslash/backtick escapes outside quotes, # comments; PowerShell: any of ' ‘ ’ ‚ ‛ delimits a single-quoted string); second-level mini-languages (zsh _arguments specs, fish -a re-evaluation) and runtime behaviour are not modelled");
    rep.assume("nushell is judged by nu-parser 0.88.1 with the nu-cmd-lang default context; bash by byte identity and bash -n");

    // self-test of the lexical models on hand-written fragments
    {
        let t = [
            ("zsh", "a 'x'\\''y' \"b\\\"$c\" # com\n", "a § §$ \n"),
            ("fish", "complete -d 'it\\'s' -a \"x\\\"y\"\n", "complete -d § -a §\n"),
            ("powershell", "[X]::new('a''b', 'c’’d')\n", "[X]::new(§, §)\n"),
            ("elvish", "cand -x 'a''b' \"q\\\"r\"\n", "cand -x § §\n"),
        ];
        for (sh, src, want) in t {
            let got = skeleton(sh, src);
            if got != want {
                rep.machinery(&format!("self-test: {} skeleton of {:?} is {:?}, expected {:?}", sh, src, got, want));
            }
        }
    }

    let chunk = 40usize;
    let mut blocks: Vec<(usize, usize)> = vec![];
    // name-width sweep: all slots at once for every name length 1..=40
    let mut slots: Vec<String> = SLOTS.iter().map(|s| s.to_string()).collect();
    for n in 1..=40usize {
        slots.push(format!("all@{}", n));
    }
    let slots: &Vec<String> = &slots;
    for si in 0..slots.len() {
        let mut st = 0;
        while st < strs.len() {
            blocks.push((si, st));
            st += chunk;
        }
    }
    par_blocks(blocks.len(), |bi, tid| {
        let (si, st) = blocks[bi];
        let slot = slots[si].as_str();
        let base = baseline(slot, false);
        let mut h = Hist::new();
        for (k, text) in strs[st..(st + chunk).min(strs.len())].iter().enumerate() {
            h.evaluations += 1;
            h.states += 1;
            h.transitions += 1;
            h.validated += 1;
            h.nontrivial += 1;
            let order = (text.chars().count() as u64 * 10 + if slot == "all" { 5 } else { 0 }, (bi * chunk + k) as u64);
            let mk = || json!({"slot": slot, "text_hex": hex(text.as_bytes()), "text_shown": format!("{:?}", text)});
            match catch(|| check(slot, text, &base, &format!("t{}", tid))) {
                Ok(bad) => {
                    h.bump(if bad.is_empty() { "structure-unchanged" } else { "STRUCTURE-CHANGED" });
                    for (c, w) in bad {
                        rep.violation(Violation { cause: c.clone(), order, what: format!("slot {} text {:?}: {} ({})", slot, text, c, w), case: mk() });
                    }
                }
                Err(p) => rep.violation(Violation { cause: p.key(), order, what: format!("slot {} text {:?}: {}", slot, text, p.show()), case: mk() }),
            }
        }
        if bi == 0 || bi == blocks.len() - 1 {
            rep.sample(json!({"slot": slot, "example_text": strs[st]}));
        }
        rep.merge(&h);
    });
    // empty text in every slot
    for slot in slots.iter().map(|s| s.as_str()) {
        let base = baseline(slot, true);
        for (c, w) in check(slot, "", &base, "empty") {
            rep.violation(Violation { cause: c.clone(), order: (0, 0), what: format!("slot {} empty text: {} ({})", slot, c, w), case: json!({"slot": slot, "text_hex": ""}) });
        }
    }
    rep.finish(&recheck);
}
