//! C04, default-feature pass: possible values with and without `ignore_case` when clap is built
//! WITHOUT the `unicode` feature (ASCII-only case folding). Names and aliases contain the
//! punctuation characters whose byte differs from another punctuation character only in bit 0x20.
//! Prints a one-line JSON summary; exit 0 held / 1 violation (with a replay file).

use clap::builder::PossibleValue;
use clap::{Arg, Command};
use mccore::*;
use serde_json::json;

const NAMES: [&str; 7] = ["fast", "@all", "[default]", "on-demand", "x^y", "a\\b", "Mixed_Case"];
const ALIAS: (&str, &str) = ("fast", "^");

fn cmd(ignore_case: bool) -> Command {
    let pvs: Vec<PossibleValue> = NAMES.iter().map(|n| if *n == ALIAS.0 { PossibleValue::new(*n).alias(ALIAS.1) } else { PossibleValue::new(*n) }).collect();
    Command::new("prog").arg(Arg::new("n").long("n").value_parser(pvs).ignore_case(ignore_case))
}

fn candidates() -> Vec<String> {
    let subs: Vec<char> = "@`[{\\|]}^~\r-_\u{7f}mM".chars().collect();
    let mut out: Vec<String> = vec![];
    for n in NAMES.iter().chain(std::iter::once(&ALIAS.1)) {
        let cs: Vec<char> = n.chars().collect();
        // every case variant
        for mask in 0..(1u32 << cs.len().min(10)) {
            let v: String = cs.iter().enumerate().map(|(i, c)| if mask & (1 << i) != 0 { c.to_ascii_uppercase() } else { c.to_ascii_lowercase() }).collect();
            out.push(v);
        }
        // every single-character substitution by a punctuation character
        for i in 0..cs.len() {
            for s in &subs {
                let mut v = cs.clone();
                v[i] = *s;
                out.push(v.into_iter().collect());
            }
        }
    }
    out.push(String::new());
    out.sort();
    out.dedup();
    out
}

fn main() {
    install_silent_hook();
    let cands = candidates();
    let mut evals = 0u64;
    let mut accepted = 0u64;
    let mut bad: Vec<serde_json::Value> = vec![];
    for ic in [false, true] {
        for c in &cands {
            evals += 1;
            let want = NAMES.iter().chain(std::iter::once(&ALIAS.1)).any(|n| if ic { n.eq_ignore_ascii_case(c) } else { *n == c });
            let r = catch(|| cmd(ic).try_get_matches_from(["prog".to_string(), format!("--n={}", c)]).is_ok());
            match r {
                Ok(got) => {
                    if got {
                        accepted += 1;
                    }
                    if got != want {
                        bad.push(json!({"string": c, "ignore_case": ic, "accepted": got, "declared": want}));
                    }
                }
                Err(p) => bad.push(json!({"string": c, "ignore_case": ic, "panic": p.show()})),
            }
        }
    }
    println!("{}", json!({"pass": "clap default features (no unicode)", "evaluations": evals, "accepted": accepted, "violations": bad.len(), "first": bad.first()}));
    if let Some(b) = bad.first() {
        let dir = mccore::report::verif_root().join("replays").join("C04");
        let _ = std::fs::create_dir_all(&dir);
        let p = dir.join("default-features-possible-values.json");
        let _ = std::fs::write(&p, serde_json::to_string_pretty(&json!({"property": "C04", "cause": "possible values (default features): accepted set differs from the declared names under ASCII case folding", "case": b, "all": bad})).unwrap());
        println!("  cause: possible values (clap default features): accepted set differs from the declared names/aliases");
        println!("  what: {}", b);
        println!("VIOLATION property=C04 replay={}", p.display());
        std::process::exit(1);
    }
}
