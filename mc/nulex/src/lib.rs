//! Token structure of a nushell script according to the real nushell parser (nu-parser 0.88.1):
//! number of parse errors + the sequence of flattened shape kinds (string contents and comment
//! text do not appear in it).

use nu_protocol::engine::StateWorkingSet;

fn context() -> nu_protocol::engine::EngineState {
    let mut e = nu_cmd_lang::create_default_context();
    // some parser paths look the working directory up in the environment
    e.add_env_var("PWD".into(), nu_protocol::Value::string("/", nu_protocol::Span::unknown()));
    e
}

pub fn structure(script: &str) -> (usize, Vec<String>) {
    let engine_state = context();
    let mut working_set = StateWorkingSet::new(&engine_state);
    let block = nu_parser::parse(&mut working_set, None, script.as_bytes(), false);
    let errors = working_set.parse_errors.len();
    let shapes = nu_parser::flatten_block(&working_set, &block);
    (errors, shapes.into_iter().map(|(_, s)| format!("{}", s)).collect())
}

pub fn first_error(script: &str) -> Option<String> {
    let engine_state = context();
    let mut working_set = StateWorkingSet::new(&engine_state);
    let _ = nu_parser::parse(&mut working_set, None, script.as_bytes(), false);
    working_set.parse_errors.first().map(|e| format!("{:?}", e).chars().take(200).collect())
}
