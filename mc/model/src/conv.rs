//! The conventional class of commands (DESIGN §3.2 `conv`) and its token alphabet.

use crate::spec::*;

pub fn templates() -> Vec<(&'static str, ArgSpec)> {
    let mut v: Vec<(&'static str, ArgSpec)> = vec![];
    v.push(("flag", ArgSpec::flag("a", Some('a'), Some("alpha"))));
    let mut f = ArgSpec::flag("f", None, Some("no-f"));
    f.action = Some(Act::SetFalse);
    v.push(("setfalse", f));
    let mut c = ArgSpec::flag("c", Some('c'), Some("count"));
    c.action = Some(Act::Count);
    v.push(("count", c));
    v.push(("opt1", ArgSpec::opt("o", Some('o'), Some("opt"))));
    let mut m = ArgSpec::opt("m", Some('m'), Some("multi"));
    m.action = Some(Act::Append);
    v.push(("append1", m));
    let mut t = ArgSpec::opt("t", Some('t'), Some("two"));
    t.num_args = Some((2, Some(2)));
    v.push(("set2", t));
    let mut e = ArgSpec::opt("e", Some('e'), Some("eq"));
    e.num_args = Some((0, Some(1)));
    e.require_equals = true;
    e.default_missing = vec!["dm".into()];
    v.push(("optional_eq", e));
    let mut r = ArgSpec::opt("r", Some('r'), Some("range"));
    r.action = Some(Act::Append);
    r.num_args = Some((1, Some(2)));
    v.push(("append1_2", r));
    let mut d = ArgSpec::opt("d", Some('d'), Some("delim"));
    d.action = Some(Act::Append);
    d.delimiter = Some(',');
    v.push(("append_delim", d));
    let mut u = ArgSpec::opt("u", Some('u'), Some("unb"));
    u.action = Some(Act::Append);
    u.num_args = Some((1, None));
    v.push(("append_unbounded", u));
    v.push(("pos1", ArgSpec::pos("p", 1)));
    let mut q = ArgSpec::pos("q", 2);
    q.num_args = Some((1, None));
    v.push(("pos_multi_second", q));
    let mut rest = ArgSpec::pos("rest", 1);
    rest.num_args = Some((0, None));
    v.push(("pos_multi", rest));
    let mut rd = ArgSpec::pos("rest", 1);
    rd.num_args = Some((0, None));
    rd.delimiter = Some(',');
    v.push(("pos_multi_delim", rd));
    v
}

#[derive(Clone, Copy, Debug, PartialEq, Eq)]
pub enum Feat {
    Alias,
    InferLong,
    OverrideSelf,
    Sub,
    SubInfer,
    OsValues,
    LastPositional,
}

pub const FEATS: [Feat; 7] = [Feat::Alias, Feat::InferLong, Feat::OverrideSelf, Feat::Sub, Feat::SubInfer, Feat::OsValues, Feat::LastPositional];

pub struct Conv {
    pub name: String,
    pub spec: CmdSpec,
    pub n_args: usize,
    pub n_feats: usize,
}

fn valid_combo(picked: &[&str]) -> bool {
    // positional combinations: pos_multi_second needs pos1; pos_multi excludes the other two
    let has = |n: &str| picked.contains(&n);
    if has("pos_multi_second") && !has("pos1") {
        return false;
    }
    if has("pos_multi") && (has("pos1") || has("pos_multi_second")) {
        return false;
    }
    if has("pos_multi_delim") && (has("pos1") || has("pos_multi_second") || has("pos_multi")) {
        return false;
    }
    true
}

/// All conventional configurations with <= max_args argument templates and <= max_feats features.
pub fn configs(max_args: usize, max_feats: usize) -> Vec<Conv> {
    let t = templates();
    let mut out = vec![];
    for aset in mccore::subsets_upto(t.len(), max_args) {
        let names: Vec<&str> = aset.iter().map(|i| t[*i].0).collect();
        if !valid_combo(&names) {
            continue;
        }
        for fset in mccore::subsets_upto(FEATS.len(), max_feats) {
            let feats: Vec<Feat> = fset.iter().map(|i| FEATS[*i]).collect();
            if feats.contains(&Feat::Sub) && feats.contains(&Feat::SubInfer) {
                continue;
            }
            let mut c = CmdSpec::new("prog");
            for i in &aset {
                c.args.push(t[*i].1.clone());
            }
            let mut applicable = true;
            for f in &feats {
                match f {
                    Feat::Alias => {
                        if let Some(a) = c.args.iter_mut().find(|a| !a.is_positional()) {
                            a.aliases.push("alf".into());
                            if a.short.is_some() {
                                a.short_aliases.push('A');
                            }
                        } else {
                            applicable = false;
                        }
                    }
                    Feat::InferLong => c.set(Setting::InferLongArgs),
                    Feat::OverrideSelf => c.set(Setting::ArgsOverrideSelf),
                    Feat::Sub | Feat::SubInfer => {
                        let mut s = CmdSpec::new("sub");
                        s.aliases.push("sb2".into());
                        s.args.push(ArgSpec::flag("x", Some('x'), Some("xray")));
                        s.args.push(ArgSpec::opt("y", Some('y'), Some("yank")));
                        c.subs.push(s);
                        if *f == Feat::SubInfer {
                            c.subs.push(CmdSpec::new("sum"));
                            c.set(Setting::InferSubcommands);
                        }
                    }
                    Feat::OsValues => {
                        let mut any = false;
                        for a in c.args.iter_mut() {
                            if a.act().takes_values() {
                                a.parser = Vp::Os;
                                any = true;
                            }
                        }
                        applicable &= any;
                    }
                    Feat::LastPositional => {
                        if let Some(p) = c.args.iter_mut().filter(|a| a.is_positional()).max_by_key(|a| a.index) {
                            p.last = true;
                        } else {
                            applicable = false;
                        }
                    }
                }
            }
            if !applicable {
                continue;
            }
            out.push(Conv {
                name: format!("{:?}+{:?}", names, feats),
                spec: c,
                n_args: aset.len(),
                n_feats: feats.len(),
            });
        }
    }
    out
}

/// Token alphabet for a conventional configuration, simplest first.
pub fn alphabet(c: &CmdSpec) -> Vec<Vec<u8>> {
    let mut t: Vec<Vec<u8>> = vec![];
    let mut add = |s: Vec<u8>| {
        if !t.contains(&s) {
            t.push(s);
        }
    };
    add(b"v".to_vec());
    let mut shorts: Vec<char> = vec![];
    for a in &c.args {
        if a.is_positional() {
            if a.delimiter.is_some() {
                add(b"w,x".to_vec());
                // boundary shapes: a value that ends in the delimiter, a lone delimiter
                add(b"w,".to_vec());
                add(b",".to_vec());
            }
            continue;
        }
        let takes = a.act().takes_values();
        if let Some(s) = a.short {
            add(format!("-{}", s).into_bytes());
            if takes {
                add(format!("-{}v", s).into_bytes());
                add(format!("-{}=v", s).into_bytes());
            } else {
                shorts.push(s);
            }
        }
        if let Some(l) = &a.long {
            add(format!("--{}", l).into_bytes());
            if takes {
                add(format!("--{}=v", l).into_bytes());
            }
        }
        if a.delimiter.is_some() {
            add(b"w,x".to_vec());
            add(b"w,".to_vec());
            if let Some(l) = &a.long {
                add(format!("--{}=w,x", l).into_bytes());
                add(format!("--{}=w,", l).into_bytes());
            }
        }
        for al in &a.aliases {
            add(format!("--{}", al).into_bytes());
        }
        for al in &a.short_aliases {
            add(format!("-{}", al).into_bytes());
        }
    }
    // clusters
    if let Some(first_flag) = shorts.first() {
        for a in &c.args {
            if let Some(s) = a.short {
                if s != *first_flag {
                    add(format!("-{}{}", first_flag, s).into_bytes());
                    if a.act().takes_values() {
                        add(format!("-{}{}v", first_flag, s).into_bytes());
                    }
                    break;
                }
            }
        }
        add(format!("-{}{}", first_flag, first_flag).into_bytes());
    }
    add(b"--".to_vec());
    add(b"w".to_vec());
    if !c.subs.is_empty() {
        add(b"sub".to_vec());
        add(b"-x".to_vec());
        add(b"-yv".to_vec());
        add(b"sb2".to_vec());
        if c.has(Setting::InferSubcommands) {
            add(b"su".to_vec());
            add(b"sb".to_vec());
        }
    }
    if c.has(Setting::InferLongArgs) {
        // a prefix of the first long, and the shared prefix of two longs if any
        let longs: Vec<&String> = c.args.iter().filter_map(|a| a.long.as_ref()).collect();
        if let Some(l) = longs.first() {
            add(format!("--{}", &l[..l.len().min(2)]).into_bytes());
            add(format!("--{}", &l[..1]).into_bytes());
        }
        add(b"--he".to_vec());
    }
    add(b"".to_vec());
    add(b"-".to_vec());
    add(b"-z".to_vec());
    add(b"--unk".to_vec());
    add(b"-h".to_vec());
    add(b"\xff".to_vec());
    t
}


/// The hyphen-value family: the documented precedence rules of `allow_hyphen_values` /
/// `allow_negative_numbers` ("prior arguments with allow_hyphen_values get precedence over known
/// flags, but known flags get precedence over the next possible positional").
pub fn hyphen_configs() -> Vec<Conv> {
    let mut out = vec![];
    let base = |f: &dyn Fn(&mut CmdSpec)| {
        let mut c = CmdSpec::new("prog");
        c.args.push(ArgSpec::flag("a", Some('a'), Some("alpha")));
        c.args.push(ArgSpec::opt("o", Some('o'), Some("opt")));
        f(&mut c);
        c
    };
    let multi_pos = |hy: bool, neg: bool, idx: usize| {
        let mut p = ArgSpec::pos("p", idx);
        p.num_args = Some((1, None));
        p.allow_hyphen_values = hy;
        p.allow_negative_numbers = neg;
        p
    };
    let mut push = |name: &str, spec: CmdSpec| out.push(Conv { name: name.to_string(), spec, n_args: 3, n_feats: 1 });
    push("hyphen:multi-positional", base(&|c| c.args.push(multi_pos(true, false, 1))));
    push("hyphen:single+multi-positional", base(&|c| {
        c.args.push(ArgSpec::pos("f", 1));
        c.args.push(multi_pos(true, false, 2));
    }));
    push("hyphen:single-positional", base(&|c| {
        let mut p = ArgSpec::pos("p", 1);
        p.allow_hyphen_values = true;
        c.args.push(p);
    }));
    push("hyphen:option-1", base(&|c| {
        c.arg_mut("o").unwrap().allow_hyphen_values = true;
        c.args.push(ArgSpec::pos("p", 1));
    }));
    push("hyphen:option-1..=2", base(&|c| {
        let o = c.arg_mut("o").unwrap();
        o.allow_hyphen_values = true;
        o.num_args = Some((1, Some(2)));
    }));
    push("negnum:multi-positional", base(&|c| c.args.push(multi_pos(false, true, 1))));
    push("negnum:option", base(&|c| {
        c.arg_mut("o").unwrap().allow_negative_numbers = true;
        c.args.push(ArgSpec::pos("p", 1));
    }));
    push("hyphen:multi-positional+sub", base(&|c| {
        c.args.push(multi_pos(true, false, 1));
        let mut s = CmdSpec::new("sub");
        s.args.push(ArgSpec::flag("x", Some('x'), None));
        c.subs.push(s);
    }));
    push("hyphen:multi-positional+short-alias", base(&|c| {
        c.arg_mut("a").unwrap().short_aliases.push('e');
        c.arg_mut("o").unwrap().visible_short_aliases.push('O');
        c.args.push(multi_pos(true, false, 1));
    }));
    push("term:option", base(&|c| {
        let o = c.arg_mut("o").unwrap();
        o.num_args = Some((1, None));
        o.terminator = Some(";".into());
        c.args.push(ArgSpec::pos("p", 1));
    }));
    push("term:positional", base(&|c| {
        let mut f = multi_pos(false, false, 1);
        f.id = "f".into();
        f.terminator = Some(";".into());
        c.args.push(f);
        c.args.push(ArgSpec::pos("q", 2));
    }));
    push("tva:positional", base(&|c| {
        let mut p = multi_pos(false, false, 1);
        p.trailing_var_arg = true;
        c.args.push(p);
    }));
    // no help flag and no help subcommand anywhere: what do errors point at?
    push("help:both-disabled+sub", base(&|c| {
        c.set(Setting::DisableHelpFlag);
        c.set(Setting::DisableHelpSubcommand);
        let mut s = CmdSpec::new("sub");
        s.args.push(ArgSpec::flag("x", Some('x'), None));
        c.subs.push(s);
    }));
    push("help:flag-disabled+sub", base(&|c| {
        c.set(Setting::DisableHelpFlag);
        let mut s = CmdSpec::new("sub");
        s.args.push(ArgSpec::flag("x", Some('x'), None));
        c.subs.push(s);
    }));
    // a short-only argument with long aliases
    push("alias:long-aliases-of-a-short-only-argument", base(&|c| {
        let a = c.arg_mut("a").unwrap();
        a.long = None;
        a.aliases.push("alpha".into());
        a.visible_aliases.push("alf".into());
    }));
    // value language at the grammar level: possible values with aliases, with and without ignore_case
    push("values:possible-values-aliases", {
        let mut c = CmdSpec::new("prog");
        c.args.push(ArgSpec::flag("a", Some('a'), Some("alpha")));
        let pv = || Vp::Pv(vec![
            PvSpec { name: "fast".into(), aliases: vec!["quick".into()], ..Default::default() },
            PvSpec { name: "slow".into(), ..Default::default() },
        ]);
        let mut o = ArgSpec::opt("o", Some('o'), Some("opt"));
        o.parser = pv();
        o.ignore_case = true;
        c.args.push(o);
        let mut m = ArgSpec::opt("m", Some('m'), Some("mode"));
        m.parser = pv();
        c.args.push(m);
        c
    });
    // the same language with one value hidden from help, as a list and as a value enum
    for (name, enumerated) in [("values:possible-values-hidden", false), ("values:value-enum-hidden-variant", true)] {
        push(name, {
            let mut c = CmdSpec::new("prog");
            c.args.push(ArgSpec::flag("a", Some('a'), Some("alpha")));
            let pv = || if enumerated {
                Vp::Enum
            } else {
                Vp::Pv(vec![
                    PvSpec { name: "fast".into(), aliases: vec!["quick".into()], ..Default::default() },
                    PvSpec { name: "slow".into(), aliases: vec!["lazy".into()], hide: true, ..Default::default() },
                ])
            };
            let mut o = ArgSpec::opt("o", Some('o'), Some("opt"));
            o.parser = pv();
            o.ignore_case = true;
            c.args.push(o);
            let mut m = ArgSpec::opt("m", Some('m'), Some("mode"));
            m.parser = pv();
            m.default = vec!["slow".into()];
            c.args.push(m);
            c
        });
    }
    // settings made on the root only, documented to reach every descendant; used two levels down
    push("nested:inherited-settings", {
        let mut c = CmdSpec::new("prog");
        c.set(Setting::InferLongArgs);
        c.set(Setting::InferSubcommands);
        c.set(Setting::DontDelimitTrailingValues);
        c.set(Setting::ArgsOverrideSelf);
        c.args.push(ArgSpec::flag("a", Some('a'), Some("alpha")));
        let mut s = CmdSpec::new("sub");
        s.args.push(ArgSpec::flag("x", Some('x'), Some("xray")));
        let mut d = CmdSpec::new("deep");
        d.args.push(ArgSpec::flag("v", Some('v'), Some("verbose")));
        let mut o = ArgSpec::opt("o", Some('o'), Some("opt"));
        o.num_args = None;
        d.args.push(o);
        let mut items = ArgSpec::pos("items", 1);
        items.num_args = Some((1, None));
        items.delimiter = Some(',');
        d.args.push(items);
        let mut leaf = CmdSpec::new("leaf");
        leaf.args.push(ArgSpec::flag("z", Some('z'), Some("zulu")));
        d.subs.push(leaf);
        s.subs.push(d);
        c.subs.push(s);
        c
    });
    push("posorder:low-index-multiple+sub", {
        let mut c = CmdSpec::new("prog");
        c.args.push(ArgSpec::flag("a", Some('a'), Some("alpha")));
        let mut files = ArgSpec::pos("files", 1);
        files.num_args = Some((1, None));
        files.required = true;
        c.args.push(files);
        let mut t = ArgSpec::pos("target", 2);
        t.required = true;
        c.args.push(t);
        let mut s = CmdSpec::new("sub");
        s.args.push(ArgSpec::flag("x", Some('x'), None));
        c.subs.push(s);
        c
    });
    // misspelt long flags next to three subcommands with long flags of their own: the error may
    // point at a subcommand's flag, which must then be a flag of *that* subcommand
    push("suggest:flags-of-sibling-subcommands", {
        let mut c = CmdSpec::new("prog");
        c.args.push(ArgSpec::flag("a", Some('a'), Some("alpha")));
        let mut b = CmdSpec::new("build");
        b.args.push(ArgSpec::flag("release", None, Some("release")));
        let mut cl = CmdSpec::new("clean");
        cl.args.push(ArgSpec::flag("dry", None, Some("dry-run")));
        let mut be = CmdSpec::new("bench");
        be.args.push(ArgSpec::opt("jobs", None, Some("jobs")));
        c.subs = vec![b, cl, be];
        c
    });
    // a subcommand whose own subcommands come from a deferred closure: everything a command gets
    // for having subcommands (the generated `help` subcommand above all) must be there
    push("defer:subcommands-from-closure", {
        let mut c = CmdSpec::new("prog");
        c.args.push(ArgSpec::flag("a", Some('a'), Some("alpha")));
        let mut s = CmdSpec::new("sub");
        s.args.push(ArgSpec::flag("x", Some('x'), Some("xray")));
        s.subs.push(crate::spec::deferred_leaf_spec());
        s.subs_deferred = true;
        c.subs.push(s);
        c
    });
    // the positional look-ahead has to know a subcommand by its aliases too
    push("posalias:low-index-multiple+sub-alias", {
        let mut c = CmdSpec::new("prog");
        c.args.push(ArgSpec::flag("a", Some('a'), Some("alpha")));
        let mut files = ArgSpec::pos("files", 1);
        files.num_args = Some((1, None));
        files.required = true;
        c.args.push(files);
        let mut t = ArgSpec::pos("target", 2);
        t.required = true;
        c.args.push(t);
        let mut s = CmdSpec::new("sub");
        s.aliases.push("sb".into());
        s.visible_aliases.push("sv".into());
        s.args.push(ArgSpec::flag("x", Some('x'), None));
        c.subs.push(s);
        c
    });
    push("posalias:allow_missing_positional+sub-alias", {
        let mut c = CmdSpec::new("prog");
        c.set(Setting::AllowMissingPositional);
        c.args.push(ArgSpec::flag("a", Some('a'), Some("alpha")));
        c.args.push(ArgSpec::pos("f", 1));
        let mut s2 = ArgSpec::pos("s", 2);
        s2.required = true;
        c.args.push(s2);
        let mut s = CmdSpec::new("sub");
        s.aliases.push("sb".into());
        s.visible_aliases.push("sv".into());
        s.args.push(ArgSpec::flag("x", Some('x'), None));
        c.subs.push(s);
        c
    });
    // `<host> <cmd>... ; [log]`: a terminated multi-value positional in second-to-last place
    push("posorder:terminated-multiple-before-optional", {
        let mut c = CmdSpec::new("prog");
        c.args.push(ArgSpec::flag("a", Some('a'), Some("alpha")));
        let mut host = ArgSpec::pos("host", 1);
        host.required = true;
        c.args.push(host);
        let mut cmd = ArgSpec::pos("cmd", 2);
        cmd.num_args = Some((1, None));
        cmd.terminator = Some(";".into());
        cmd.required = true;
        c.args.push(cmd);
        c.args.push(ArgSpec::pos("log", 3));
        c
    });
    push("posorder:allow_missing_positional+sub", {
        let mut c = CmdSpec::new("prog");
        c.set(Setting::AllowMissingPositional);
        c.args.push(ArgSpec::flag("a", Some('a'), Some("alpha")));
        c.args.push(ArgSpec::pos("f", 1));
        let mut s2 = ArgSpec::pos("s", 2);
        s2.required = true;
        c.args.push(s2);
        let mut s = CmdSpec::new("sub");
        s.args.push(ArgSpec::flag("x", Some('x'), None));
        // the subcommand has two optional positionals of its own and did not ask for the setting
        s.args.push(ArgSpec::pos("from", 1));
        s.args.push(ArgSpec::pos("to", 2));
        c.subs.push(s);
        c
    });
    out
}

/// tokens for the `nested:` family (the two steps down are given as a fixed prefix by the checkers)
pub fn nested_alphabet() -> Vec<Vec<u8>> {
    ["v", "a,b", "--", "-v", "--verb", "--verbose", "--opt=1", "--op", "2", "le", "leaf", "-z", "--zu", "--opt=3"].iter().map(|s| s.as_bytes().to_vec()).collect()
}

pub fn values_alphabet() -> Vec<Vec<u8>> {
    ["--opt=fast", "--opt=FAST", "--opt=quick", "--opt=QUICK", "--opt=Quick", "--opt=slow", "--opt=bogus", "--opt=", "-o", "QUICK", "quick", "-oQuick", "--mode=quick", "--mode=QUICK", "--mode=fast", "-m", "-a", "--mode=slow", "--opt=LAZY"]
        .iter()
        .map(|s| s.as_bytes().to_vec())
        .collect()
}

pub fn suggest_alphabet() -> Vec<Vec<u8>> {
    ["--relese", "--dry-ru", "--job", "--alpa", "build", "clean", "bench", "-a", "--release", "--dry-run", "--jobs=2"]
        .iter()
        .map(|s| s.as_bytes().to_vec())
        .collect()
}

pub fn posalias_alphabet() -> Vec<Vec<u8>> {
    ["v", "w", "u", "sub", "sb", "sv", "-a", "--", "-x"].iter().map(|s| s.as_bytes().to_vec()).collect()
}

pub fn defer_alphabet() -> Vec<Vec<u8>> {
    ["sub", "leaf", "help", "-x", "-z", "--zulu", "-a", "--help", "v", "-h"]
        .iter()
        .map(|s| s.as_bytes().to_vec())
        .collect()
}

pub fn hyphen_alphabet() -> Vec<Vec<u8>> {
    ["v", "-a", "--alpha", "-o", "--opt", "--opt=v", "-ov", "-z", "--unk", "-1", "--", "-az", "w", "sub", "-x", "-1.5", "-", "", "-e", "-ae", "u", ";", "-1e3", "--opt=-1e3"]
        .iter()
        .map(|s| s.as_bytes().to_vec())
        .collect()
}
