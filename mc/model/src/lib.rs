//! Shared vocabulary: command specs, builder, observations and reference models.

pub mod conv;
pub mod dev;
pub mod r1;
pub mod r2;
pub mod rel;
pub mod obs;
pub mod spec;

pub use obs::*;
pub use spec::*;

/// Own every environment input before any thread starts (DESIGN §2.4).
pub fn fix_env() {
    // Safety: called first thing in main(), single-threaded.
    for k in ["COLUMNS", "LINES", "NO_COLOR", "CLICOLOR", "CLICOLOR_FORCE", "TERM"] {
        std::env::remove_var(k);
    }
    std::env::set_var("CLAPMC_SET", "envv");
    std::env::set_var("CLAPMC_EMPTY", "");
    std::env::set_var("CLAPMC_DELIM", "a,b");
    std::env::set_var("CLAPMC_TRUE", "true");
    std::env::set_var("CLAPMC_X", "x");
    std::env::set_var("CLAPMC_COUNT", "3");
    {
        use std::os::unix::ffi::OsStrExt;
        std::env::set_var("CLAPMC_NONUTF8", std::ffi::OsStr::from_bytes(b"w\xff"));
    }
    std::env::remove_var("CLAPMC_UNSET");
}
