//! Observation function on `ArgMatches` and on `clap::Error` — only what properties talk about.

use crate::spec::{Act, CmdSpec};
use clap::parser::ValueSource;
use clap::ArgMatches;
use mccore::os_bytes;
use serde::{Deserialize, Serialize};
use std::collections::BTreeMap;

#[derive(Clone, Copy, Debug, PartialEq, Eq, Hash, PartialOrd, Ord, Serialize, Deserialize)]
pub enum Src {
    Default,
    Env,
    Cli,
}

pub fn src_of(v: ValueSource) -> Src {
    match v {
        ValueSource::DefaultValue => Src::Default,
        ValueSource::EnvVariable => Src::Env,
        ValueSource::CommandLine => Src::Cli,
        _ => Src::Default,
    }
}

#[derive(Clone, Debug, PartialEq, Eq, Default, Serialize, Deserialize)]
pub struct ArgObs {
    pub present: bool,
    pub source: Option<Src>,
    /// raw values grouped per occurrence
    pub occ: Vec<Vec<Vec<u8>>>,
    pub indices: Vec<usize>,
}

impl ArgObs {
    pub fn flat(&self) -> Vec<Vec<u8>> {
        self.occ.iter().flatten().cloned().collect()
    }
    pub fn explicit(&self) -> bool {
        matches!(self.source, Some(Src::Cli) | Some(Src::Env))
    }
}

#[derive(Clone, Debug, PartialEq, Eq, Default, Serialize, Deserialize)]
pub struct Obs {
    pub args: BTreeMap<String, ArgObs>,
    pub sub: Option<(String, Box<Obs>)>,
    /// external subcommand: raw values stored under the empty id
    pub ext: Option<Vec<Vec<u8>>>,
}

impl Obs {
    pub fn chain(&self) -> Vec<String> {
        let mut out = vec![];
        let mut cur = self;
        while let Some((n, s)) = &cur.sub {
            out.push(n.clone());
            cur = s;
        }
        out
    }
    pub fn at_depth(&self, d: usize) -> Option<&Obs> {
        let mut cur = self;
        for _ in 0..d {
            cur = &cur.sub.as_ref()?.1;
        }
        Some(cur)
    }
    pub fn show(&self) -> String {
        let mut s = String::new();
        for (k, a) in &self.args {
            if a.present {
                s.push_str(&format!(
                    "{}[{:?}]={:?}@{:?} ",
                    k,
                    a.source,
                    a.occ
                        .iter()
                        .map(|o| o.iter().map(|v| mccore::show(v)).collect::<Vec<_>>())
                        .collect::<Vec<_>>(),
                    a.indices
                ));
            }
        }
        if let Some(e) = &self.ext {
            s.push_str(&format!("ext={:?} ", e.iter().map(|v| mccore::show(v)).collect::<Vec<_>>()));
        }
        if let Some((n, sub)) = &self.sub {
            s.push_str(&format!("sub {} {{ {} }}", n, sub.show()));
        }
        s
    }
}

fn obs_id(m: &ArgMatches, id: &str) -> ArgObs {
    let present = m.try_contains_id(id).unwrap_or(false);
    if !present {
        return ArgObs::default();
    }
    let source = m.value_source(id).map(src_of);
    let occ = match m.try_get_raw_occurrences(id) {
        Ok(Some(o)) => o.map(|g| g.map(|v| os_bytes(v)).collect()).collect(),
        _ => vec![],
    };
    let indices = m.indices_of(id).map(|i| i.collect()).unwrap_or_default();
    ArgObs { present, source, occ, indices }
}

/// Ids visible at a level: its own args and groups, plus globals propagated from ancestors.
pub fn level_ids(spec: &CmdSpec, inherited_globals: &[String]) -> Vec<String> {
    let mut ids: Vec<String> = spec.args.iter().map(|a| a.id.clone()).collect();
    for g in &spec.groups {
        if !ids.contains(&g.id) {
            ids.push(g.id.clone());
        }
    }
    for a in &spec.args {
        for g in &a.groups {
            if !ids.contains(g) {
                ids.push(g.clone());
            }
        }
    }
    for g in inherited_globals {
        if !ids.contains(g) {
            ids.push(g.clone());
        }
    }
    ids
}

pub fn obs(m: &ArgMatches, spec: &CmdSpec) -> Obs {
    obs_rec(m, spec, &[])
}

fn obs_rec(m: &ArgMatches, spec: &CmdSpec, inherited: &[String]) -> Obs {
    let mut o = Obs::default();
    for id in level_ids(spec, inherited) {
        // args with Help/Version actions never store anything
        if let Some(a) = spec.arg(&id) {
            if matches!(a.action, Some(Act::Help | Act::HelpShort | Act::HelpLong | Act::Version)) {
                continue;
            }
        }
        o.args.insert(id.clone(), obs_id(m, &id));
    }
    if let Some((name, sm)) = m.subcommand() {
        let mut globals: Vec<String> = inherited.to_vec();
        for a in &spec.args {
            if a.global && !globals.contains(&a.id) {
                globals.push(a.id.clone());
            }
        }
        if let Some(ss) = spec.sub(name) {
            o.sub = Some((name.to_string(), Box::new(obs_rec(sm, ss, &globals))));
        } else {
            // external subcommand (or the generated `help` subcommand, which never returns Ok)
            let mut e = Obs::default();
            e.ext = match sm.try_get_raw("") {
                Ok(Some(v)) => Some(v.map(|x| os_bytes(x)).collect()),
                _ => Some(vec![]),
            };
            o.sub = Some((name.to_string(), Box::new(e)));
        }
    }
    o
}

/// What a parse produced, reduced to what properties compare.
#[derive(Clone, Debug, PartialEq, Eq)]
pub enum Outcome {
    Ok(Obs),
    Err(ErrObs),
}

#[derive(Clone, Debug, PartialEq, Eq)]
pub struct ErrObs {
    pub kind: String,
    pub rendered: String,
    pub use_stderr: bool,
    pub exit_code: i32,
    /// (context kind, value rendered) pairs
    pub context: Vec<(String, String)>,
}

pub fn err_obs(e: &clap::Error) -> ErrObs {
    let mut context = vec![];
    for (k, v) in e.context() {
        let vs = match v {
            clap::error::ContextValue::None => String::new(),
            clap::error::ContextValue::Bool(b) => b.to_string(),
            clap::error::ContextValue::String(s) => s.clone(),
            clap::error::ContextValue::Strings(s) => s.join("\u{1f}"),
            clap::error::ContextValue::StyledStr(s) => s.to_string(),
            clap::error::ContextValue::StyledStrs(s) => {
                s.iter().map(|x| x.to_string()).collect::<Vec<_>>().join("\u{1f}")
            }
            clap::error::ContextValue::Number(n) => n.to_string(),
            _ => String::from("?"),
        };
        context.push((format!("{:?}", k), vs));
    }
    ErrObs {
        kind: format!("{:?}", e.kind()),
        rendered: e.render().to_string(),
        use_stderr: e.use_stderr(),
        exit_code: e.exit_code(),
        context,
    }
}

pub fn argv_os(prog: &str, argv: &[Vec<u8>]) -> Vec<std::ffi::OsString> {
    let mut v = Vec::with_capacity(argv.len() + 1);
    v.push(std::ffi::OsString::from(prog));
    for a in argv {
        v.push(mccore::os(a));
    }
    v
}

/// Parse with a fresh clone of `cmd` under program name `prog`.
pub fn parse(cmd: &clap::Command, spec: &CmdSpec, argv: &[Vec<u8>]) -> Outcome {
    let full: Vec<std::ffi::OsString> = if spec.has(crate::spec::Setting::NoBinaryName)
        || spec.has(crate::spec::Setting::Multicall)
    {
        argv.iter().map(|a| mccore::os(a)).collect()
    } else {
        argv_os("prog", argv)
    };
    match cmd.clone().try_get_matches_from(full) {
        Ok(m) => Outcome::Ok(obs(&m, spec)),
        Err(e) => Outcome::Err(err_obs(&e)),
    }
}
