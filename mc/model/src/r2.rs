//! R2 — independent evaluator of the declared relations between arguments (DESIGN §3.6), written
//! from the documentation of `Arg::conflicts_with/exclusive/requires*/required*/overrides_with` and
//! `ArgGroup`, evaluated on the set of *explicitly* present ids of one command level.

use crate::obs::Obs;
use crate::spec::*;
use std::collections::BTreeSet;

#[derive(Clone, Debug, PartialEq, Eq, PartialOrd, Ord)]
pub enum Broken {
    /// two explicitly present things declared to conflict
    Conflict(String, String),
    /// an exclusive argument present together with another
    Exclusive(String, String),
    /// two members of a non-multiple group
    GroupMultiple(String, String, String),
    /// something required is absent and nothing excuses it; (what, why)
    Missing(String, String),
}

impl Broken {
    pub fn class(&self) -> &'static str {
        match self {
            Broken::Conflict(..) => "conflict",
            Broken::Exclusive(..) => "exclusive",
            Broken::GroupMultiple(..) => "non-multiple group",
            Broken::Missing(..) => "missing required",
        }
    }
}

pub struct Ctx<'a> {
    pub spec: &'a CmdSpec,
    pub explicit: BTreeSet<String>,
    pub ob: &'a Obs,
    /// strictest reading (used by C10 to decide whether a rejection is *justified*): a missing
    /// requirement is excused only by a negating subcommand, never by a conflicting or
    /// exclusive argument. The lenient reading (C03: may the parse succeed?) accepts every documented
    /// exemption. Between the two, both outcomes are compatible with the documentation.
    pub strict: bool,
}

fn groups_of<'a>(spec: &'a CmdSpec, id: &str) -> Vec<&'a str> {
    let mut g: Vec<&str> = vec![];
    for gr in &spec.groups {
        if gr.args.iter().any(|a| a == id) {
            g.push(&gr.id);
        }
    }
    if let Some(a) = spec.arg(id) {
        for x in &a.groups {
            if !g.contains(&x.as_str()) {
                g.push(x);
            }
        }
    }
    g
}

pub fn members<'a>(spec: &'a CmdSpec, gid: &str) -> Vec<&'a str> {
    let mut m: Vec<&str> = vec![];
    if let Some(g) = spec.groups.iter().find(|g| g.id == gid) {
        for a in &g.args {
            m.push(a);
        }
    }
    for a in &spec.args {
        if a.groups.iter().any(|x| x == gid) && !m.contains(&a.id.as_str()) {
            m.push(&a.id);
        }
    }
    m
}

fn is_group(spec: &CmdSpec, id: &str) -> bool {
    spec.groups.iter().any(|g| g.id == id) || spec.args.iter().any(|a| a.groups.iter().any(|g| g == id))
}

fn group_multiple(spec: &CmdSpec, gid: &str) -> bool {
    spec.groups.iter().find(|g| g.id == gid).map(|g| g.multiple).unwrap_or(false)
}

/// Does `x` (an argument) conflict with `y` (argument or group id), in either declared direction,
/// including the implicit conflicts the documentation names (overrides, exclusive, siblings in a
/// non-multiple group, conflicts declared on or against a group of either)?
pub fn conflicts(spec: &CmdSpec, x: &str, y: &str) -> bool {
    if x == y {
        return false;
    }
    let xa = spec.arg(x);
    // the things `y` stands for: itself, its groups (if an arg) or its members (if a group)
    let mut ys: Vec<String> = vec![y.to_string()];
    if is_group(spec, y) {
        ys.extend(members(spec, y).iter().map(|s| s.to_string()));
    } else {
        ys.extend(groups_of(spec, y).iter().map(|s| s.to_string()));
    }
    let mut xs: Vec<String> = vec![x.to_string()];
    xs.extend(groups_of(spec, x).iter().map(|s| s.to_string()));
    let declares = |from: &str, to: &str| -> bool {
        if let Some(a) = spec.arg(from) {
            if a.conflicts.iter().any(|c| c == to) || a.overrides.iter().any(|c| c == to) {
                return true;
            }
        }
        if let Some(g) = spec.groups.iter().find(|g| g.id == from) {
            if g.conflicts.iter().any(|c| c == to) {
                return true;
            }
        }
        false
    };
    for xi in &xs {
        for yi in &ys {
            if xi != yi && (declares(xi, yi) || declares(yi, xi)) {
                return true;
            }
        }
    }
    if xa.map(|a| a.exclusive).unwrap_or(false) {
        return true;
    }
    if !is_group(spec, y) && spec.arg(y).map(|a| a.exclusive).unwrap_or(false) {
        return true;
    }
    // siblings in a non-multiple group
    for g in groups_of(spec, x) {
        if !group_multiple(spec, g) {
            if g == y || members(spec, g).contains(&y) {
                if g == y {
                    // x is a member of y itself: not a conflict with the group
                    continue;
                }
                return true;
            }
        }
    }
    false
}

fn present(ctx: &Ctx<'_>, id: &str) -> bool {
    if is_group(ctx.spec, id) {
        members(ctx.spec, id).iter().any(|m| ctx.explicit.contains(*m))
    } else {
        ctx.explicit.contains(id)
    }
}

/// A conflict declared against the group id itself (either direction), not via its members.
fn conflicts_with_group_itself(spec: &CmdSpec, x: &str, gid: &str) -> bool {
    let mut xs: Vec<String> = vec![x.to_string()];
    xs.extend(groups_of(spec, x).iter().map(|s| s.to_string()));
    for xi in &xs {
        if xi == gid {
            continue;
        }
        if let Some(a) = spec.arg(xi) {
            if a.conflicts.iter().any(|c| c == gid) {
                return true;
            }
        }
        if let Some(g) = spec.groups.iter().find(|g| &g.id == xi) {
            if g.conflicts.iter().any(|c| c == gid) {
                return true;
            }
        }
        if let Some(g) = spec.groups.iter().find(|g| g.id == gid) {
            if g.conflicts.iter().any(|c| c == xi) {
                return true;
            }
        }
    }
    spec.arg(x).map(|a| a.exclusive).unwrap_or(false)
}

fn excused(ctx: &Ctx<'_>, missing: &str) -> Option<String> {
    if ctx.strict {
        // strictest reading: nothing excuses a missing requirement (except a negating subcommand,
        // handled by the caller)
        return None;
    }
    for p in &ctx.explicit {
        if p == missing {
            continue;
        }
        if ctx.strict && is_group(ctx.spec, missing) {
            let ms = members(ctx.spec, missing);
            if conflicts_with_group_itself(ctx.spec, p, missing) || (!ms.is_empty() && ms.iter().all(|m| *m != p && conflicts(ctx.spec, p, m))) {
                return Some(p.clone());
            }
            continue;
        }
        if conflicts(ctx.spec, p, missing) {
            return Some(p.clone());
        }
        if is_group(ctx.spec, missing) {
            let ms = members(ctx.spec, missing);
            if ctx.strict {
                if !ms.is_empty() && ms.iter().all(|m| *m != p && conflicts(ctx.spec, p, m)) {
                    return Some(p.clone());
                }
            } else {
                // lenient reading for groups: a present arg conflicting with ANY member excuses it
                for m in ms {
                    if m != p && conflicts(ctx.spec, p, m) {
                        return Some(p.clone());
                    }
                }
            }
        }
    }
    None
}

fn has_value(ctx: &Ctx<'_>, id: &str, v: &str) -> bool {
    ctx.explicit.contains(id)
        && ctx
            .ob
            .args
            .get(id)
            .map(|o| o.flat().iter().any(|x| x.as_slice() == v.as_bytes()))
            .unwrap_or(false)
}

/// Explicit-presence set of one level of an observation.
pub fn explicit_set(spec: &CmdSpec, ob: &Obs) -> BTreeSet<String> {
    spec.args
        .iter()
        .filter(|a| ob.args.get(&a.id).map(|o| o.explicit()).unwrap_or(false))
        .map(|a| a.id.clone())
        .collect()
}

/// Evaluate every declared relation of one level on a successful parse's observation.
pub fn evaluate(spec: &CmdSpec, ob: &Obs) -> Vec<Broken> {
    evaluate_with(spec, ob, false)
}

pub fn evaluate_with(spec: &CmdSpec, ob: &Obs, strict: bool) -> Vec<Broken> {
    let ctx = Ctx { spec, explicit: explicit_set(spec, ob), ob, strict };
    let mut out = vec![];
    let ex: Vec<&String> = ctx.explicit.iter().collect();
    // conflicts / exclusive / non-multiple groups
    for (i, x) in ex.iter().enumerate() {
        for y in ex.iter().skip(i + 1) {
            let xa = spec.arg(x);
            let ya = spec.arg(y);
            if xa.map(|a| a.exclusive).unwrap_or(false) {
                out.push(Broken::Exclusive((*x).clone(), (*y).clone()));
                continue;
            }
            if ya.map(|a| a.exclusive).unwrap_or(false) {
                out.push(Broken::Exclusive((*y).clone(), (*x).clone()));
                continue;
            }
            let mut shared = None;
            for g in groups_of(spec, x) {
                if !group_multiple(spec, g) && members(spec, g).contains(&y.as_str()) {
                    shared = Some(g.to_string());
                }
            }
            if let Some(g) = shared {
                out.push(Broken::GroupMultiple(g, (*x).clone(), (*y).clone()));
                continue;
            }
            if conflicts(spec, x, y) {
                out.push(Broken::Conflict((*x).clone(), (*y).clone()));
            }
        }
    }
    // requirements
    // A subcommand excuses the parent's requirements when it negates them, and also when arguments
    // conflict with subcommands: the subcommand is then "a present conflicting" item for every
    // argument of the parent (the required argument could not legally be given next to it).
    let negated = (spec.has(Setting::SubcommandNegatesReqs) || spec.has(Setting::ArgsConflictsWithSubcommands)) && ob.sub.is_some();
    if negated {
        return out;
    }
    let mut need: Vec<(String, String)> = vec![]; // (what, why)
    for a in &spec.args {
        if a.required {
            need.push((a.id.clone(), "required(true)".into()));
        }
        if ctx.explicit.contains(&a.id) {
            for r in &a.requires {
                need.push((r.clone(), format!("{} requires it", a.id)));
            }
            for (v, r) in &a.requires_ifs {
                if has_value(&ctx, &a.id, v) {
                    need.push((r.clone(), format!("{}={} requires it", a.id, v)));
                }
            }
        }
        for (o, v) in &a.required_if_eq {
            if has_value(&ctx, o, v) {
                need.push((a.id.clone(), format!("required_if_eq({},{})", o, v)));
            }
        }
        if !a.required_if_eq_any.is_empty() && a.required_if_eq_any.iter().any(|(o, v)| has_value(&ctx, o, v)) {
            need.push((a.id.clone(), "required_if_eq_any".into()));
        }
        if !a.required_if_eq_all.is_empty() && a.required_if_eq_all.iter().all(|(o, v)| has_value(&ctx, o, v)) {
            need.push((a.id.clone(), "required_if_eq_all".into()));
        }
        // repeated required_unless_present calls accumulate into one any-of rule
        let mut any: Vec<&String> = a.required_unless.iter().collect();
        any.extend(a.required_unless_any.iter());
        if !any.is_empty() && !any.iter().any(|u| present(&ctx, u)) {
            // a separate all-of list must fail as well
            if a.required_unless_all.is_empty() || !a.required_unless_all.iter().all(|u| present(&ctx, u)) {
                need.push((a.id.clone(), "required_unless_present(any)".into()));
            }
        } else if any.is_empty() && !a.required_unless_all.is_empty() && !a.required_unless_all.iter().all(|u| present(&ctx, u)) {
            need.push((a.id.clone(), "required_unless_present_all".into()));
        }
    }
    for g in &spec.groups {
        if g.required {
            need.push((g.id.clone(), "required group".into()));
        }
        if present(&ctx, &g.id) {
            for r in &g.requires {
                need.push((r.clone(), format!("group {} requires it", g.id)));
            }
        }
    }
    for (what, why) in need {
        if present(&ctx, &what) {
            continue;
        }
        if excused(&ctx, &what).is_some() {
            continue;
        }
        out.push(Broken::Missing(what, why));
    }
    out
}
