//! Serializable description of a command definition (`CmdSpec`) and its translation into a real
//! `clap::Command` through the public builder API only.

use clap::builder::{ArgPredicate, OsStr as ClapOsStr, PossibleValue, ValueParser};
use clap::{value_parser, Arg, ArgAction, ArgGroup, Command};
use serde::{Deserialize, Serialize};
use serde_json::Value;

#[derive(Clone, Copy, Debug, PartialEq, Eq, Hash, PartialOrd, Ord, Serialize, Deserialize)]
pub enum Setting {
    ArgsConflictsWithSubcommands,
    SubcommandPrecedenceOverArg,
    InferLongArgs,
    InferSubcommands,
    ArgsOverrideSelf,
    DontDelimitTrailingValues,
    AllowMissingPositional,
    SubcommandNegatesReqs,
    SubcommandRequired,
    ArgRequiredElseHelp,
    DisableHelpFlag,
    DisableHelpSubcommand,
    DisableVersionFlag,
    Multicall,
    NoBinaryName,
    PropagateVersion,
    IgnoreErrors,
    NextLineHelp,
    FlattenHelp,
    HidePossibleValues,
    DontCollapseArgsInUsage,
}

#[derive(Clone, Copy, Debug, PartialEq, Eq, Hash, PartialOrd, Ord, Serialize, Deserialize)]
pub enum Act {
    Set,
    Append,
    SetTrue,
    SetFalse,
    Count,
    Help,
    HelpShort,
    HelpLong,
    Version,
}

impl Act {
    pub fn takes_values(self) -> bool {
        matches!(self, Act::Set | Act::Append)
    }
}

#[derive(Clone, Copy, Debug, PartialEq, Eq, Hash, Serialize, Deserialize)]
pub enum Ext {
    Str,
    Os,
}

#[derive(Clone, Debug, PartialEq, Eq, Hash, Default, Serialize, Deserialize)]
#[serde(default)]
pub struct PvSpec {
    pub name: String,
    pub aliases: Vec<String>,
    pub hide: bool,
    pub help: Option<String>,
}

#[derive(Clone, Debug, PartialEq, Eq, Hash, Default, Serialize, Deserialize)]
pub enum Vp {
    /// whatever the action implies (String for Set/Append)
    #[default]
    Default,
    Str,
    Os,
    U8,
    I64,
    Bool,
    Boolish,
    Falsey,
    NonEmpty,
    Pv(Vec<PvSpec>),
    /// `RangedI64ValueParser::<u8>::new()`: the public constructor, bounds wider than the target type
    U8New,
    /// `value_parser!(PathBuf)`: anything but the empty string
    PathBuf,
    /// `EnumValueParser::<ModelSpeed>`: `fast` (alias `quick`), `slow` (hidden from help, alias `lazy`)
    Enum,
}

/// The value enum behind [`Vp::Enum`]
#[derive(Clone, Copy, Debug, PartialEq, Eq)]
pub enum ModelSpeed {
    Fast,
    Slow,
}

impl clap::ValueEnum for ModelSpeed {
    fn value_variants<'a>() -> &'a [Self] {
        &[ModelSpeed::Fast, ModelSpeed::Slow]
    }
    fn to_possible_value(&self) -> Option<PossibleValue> {
        Some(match self {
            ModelSpeed::Fast => PossibleValue::new("fast").alias("quick"),
            ModelSpeed::Slow => PossibleValue::new("slow").alias("lazy").hide(true),
        })
    }
}

#[derive(Clone, Debug, PartialEq, Eq, Hash, Default, Serialize, Deserialize)]
#[serde(default)]
pub struct DefaultIf {
    pub other: String,
    /// None = "is present"; Some(v) = equals v
    pub equals: Option<String>,
    /// None = unset the default
    pub value: Option<String>,
}

#[derive(Clone, Debug, PartialEq, Eq, Hash, Default, Serialize, Deserialize)]
#[serde(default)]
pub struct ArgSpec {
    pub id: String,
    pub short: Option<char>,
    pub long: Option<String>,
    pub aliases: Vec<String>,
    pub visible_aliases: Vec<String>,
    pub short_aliases: Vec<char>,
    pub visible_short_aliases: Vec<char>,
    pub index: Option<usize>,
    pub action: Option<Act>,
    /// (min, max); max None = unbounded
    pub num_args: Option<(usize, Option<usize>)>,
    pub delimiter: Option<char>,
    pub terminator: Option<String>,
    pub require_equals: bool,
    pub allow_hyphen_values: bool,
    pub allow_negative_numbers: bool,
    pub last: bool,
    pub trailing_var_arg: bool,
    pub required: bool,
    pub global: bool,
    pub exclusive: bool,
    pub hide: bool,
    pub hide_short_help: bool,
    pub hide_long_help: bool,
    pub next_line_help: bool,
    pub hide_possible_values: bool,
    pub hide_default_value: bool,
    pub hide_env: bool,
    pub help_heading: Option<String>,
    pub ignore_case: bool,
    /// possible values: wrap the list parser in `try_map` (1) or `map` (2) with the identity
    pub pv_adaptor: u8,
    pub parser: Vp,
    pub default: Vec<String>,
    pub default_ifs: Vec<DefaultIf>,
    pub default_missing: Vec<String>,
    pub env: Option<String>,
    pub conflicts: Vec<String>,
    pub requires: Vec<String>,
    /// (value, id): requires `id` when this arg equals `value`
    pub requires_ifs: Vec<(String, String)>,
    pub overrides: Vec<String>,
    /// each entry one `required_if_eq(other, value)` call
    pub required_if_eq: Vec<(String, String)>,
    pub required_if_eq_any: Vec<(String, String)>,
    pub required_if_eq_all: Vec<(String, String)>,
    /// each entry one `required_unless_present(id)` call
    pub required_unless: Vec<String>,
    pub required_unless_any: Vec<String>,
    pub required_unless_all: Vec<String>,
    pub groups: Vec<String>,
    pub help: Option<String>,
    pub long_help: Option<String>,
    pub value_names: Vec<String>,
    pub display_order: Option<usize>,
    /// name of a `clap::ValueHint` variant
    pub value_hint: Option<String>,
}

#[derive(Clone, Debug, PartialEq, Eq, Hash, Default, Serialize, Deserialize)]
#[serde(default)]
pub struct GroupSpec {
    pub id: String,
    pub args: Vec<String>,
    pub required: bool,
    pub multiple: bool,
    pub conflicts: Vec<String>,
    pub requires: Vec<String>,
}

#[derive(Clone, Debug, PartialEq, Eq, Hash, Default, Serialize, Deserialize)]
#[serde(default)]
pub struct CmdSpec {
    pub name: String,
    pub aliases: Vec<String>,
    pub visible_aliases: Vec<String>,
    pub short_flag: Option<char>,
    pub long_flag: Option<String>,
    pub short_flag_aliases: Vec<char>,
    pub long_flag_aliases: Vec<String>,
    pub visible_short_flag_aliases: Vec<char>,
    pub visible_long_flag_aliases: Vec<String>,
    pub settings: Vec<Setting>,
    /// settings switched on and off again by the builder (`.x(true).x(false)`) before anything else
    pub toggled: Vec<Setting>,
    /// one setting switched on inside `Command::defer` (the closure runs at the first build;
    /// `defer` takes a plain fn pointer, so the menu is one static function per setting)
    pub deferred_setting: Option<Setting>,
    /// the subcommands are added inside a `Command::defer` closure; they must then be exactly the
    /// fixed `leaf` (flag `z`: `-z`, `--zulu`), because a deferred closure cannot capture anything
    pub subs_deferred: bool,
    /// `Command::next_display_order(None)`: no running display order (alphabetical listing)
    pub next_display_order_none: bool,
    /// argument ids passed through `Command::mut_arg(id, |a| a)` after the definition is complete
    /// (an identity edit: re-inserts the argument at the end of the argument list)
    pub touch: Vec<String>,
    pub args: Vec<ArgSpec>,
    pub groups: Vec<GroupSpec>,
    pub subs: Vec<CmdSpec>,
    pub version: Option<String>,
    pub long_version: Option<String>,
    pub about: Option<String>,
    pub long_about: Option<String>,
    pub before_help: Option<String>,
    pub before_long_help: Option<String>,
    pub after_help: Option<String>,
    pub after_long_help: Option<String>,
    pub author: Option<String>,
    pub term_width: Option<usize>,
    pub max_term_width: Option<usize>,
    pub template: Option<String>,
    pub external: Option<Ext>,
    pub hide: bool,
    pub subcommand_help_heading: Option<String>,
    pub subcommand_value_name: Option<String>,
    pub next_help_heading: Option<String>,
    pub bin_name: Option<String>,
    pub display_name: Option<String>,
    pub override_usage: Option<String>,
}

impl CmdSpec {
    pub fn new(name: &str) -> CmdSpec {
        CmdSpec { name: name.to_string(), ..Default::default() }
    }
    /// the setting is in effect (set directly or through the deferred initialiser)
    pub fn has(&self, s: Setting) -> bool {
        self.settings.contains(&s) || self.deferred_setting == Some(s)
    }
    pub fn set(&mut self, s: Setting) {
        if !self.settings.contains(&s) {
            self.settings.push(s);
        }
    }
    pub fn arg(&self, id: &str) -> Option<&ArgSpec> {
        self.args.iter().find(|a| a.id == id)
    }
    pub fn arg_mut(&mut self, id: &str) -> Option<&mut ArgSpec> {
        self.args.iter_mut().find(|a| a.id == id)
    }
    pub fn sub(&self, name: &str) -> Option<&CmdSpec> {
        self.subs.iter().find(|s| s.name == name)
    }
    pub fn to_json(&self) -> Value {
        compact(serde_json::to_value(self).unwrap())
    }
    pub fn from_json(v: &Value) -> Result<CmdSpec, String> {
        serde_json::from_value(v.clone()).map_err(|e| e.to_string())
    }
}

impl ArgSpec {
    pub fn flag(id: &str, short: Option<char>, long: Option<&str>) -> ArgSpec {
        ArgSpec {
            id: id.into(),
            short,
            long: long.map(|s| s.to_string()),
            action: Some(Act::SetTrue),
            ..Default::default()
        }
    }
    pub fn opt(id: &str, short: Option<char>, long: Option<&str>) -> ArgSpec {
        ArgSpec {
            id: id.into(),
            short,
            long: long.map(|s| s.to_string()),
            action: Some(Act::Set),
            ..Default::default()
        }
    }
    pub fn pos(id: &str, index: usize) -> ArgSpec {
        ArgSpec { id: id.into(), index: Some(index), ..Default::default() }
    }
    pub fn is_positional(&self) -> bool {
        self.short.is_none() && self.long.is_none()
    }
    pub fn act(&self) -> Act {
        self.action.unwrap_or(Act::Set)
    }
}

/// Drop nulls, `false`, empty arrays/objects and the `"Default"` parser tag recursively so that
/// replay files stay readable; `#[serde(default)]` restores them on reading.
pub fn compact(v: Value) -> Value {
    match v {
        Value::Object(m) => {
            let mut out = serde_json::Map::new();
            for (k, x) in m {
                let x = compact(x);
                let drop = match &x {
                    Value::Null => true,
                    Value::Bool(false) => true,
                    Value::Array(a) => a.is_empty(),
                    Value::Object(o) => o.is_empty(),
                    Value::String(s) => k == "parser" && s == "Default",
                    _ => false,
                };
                if !drop {
                    out.insert(k, x);
                }
            }
            Value::Object(out)
        }
        Value::Array(a) => Value::Array(a.into_iter().map(compact).collect()),
        x => x,
    }
}

fn action_of(a: Act) -> ArgAction {
    match a {
        Act::Set => ArgAction::Set,
        Act::Append => ArgAction::Append,
        Act::SetTrue => ArgAction::SetTrue,
        Act::SetFalse => ArgAction::SetFalse,
        Act::Count => ArgAction::Count,
        Act::Help => ArgAction::Help,
        Act::HelpShort => ArgAction::HelpShort,
        Act::HelpLong => ArgAction::HelpLong,
        Act::Version => ArgAction::Version,
    }
}

pub fn build_arg(s: &ArgSpec) -> Arg {
    let mut a = Arg::new(s.id.clone());
    if let Some(c) = s.short {
        a = a.short(c);
    }
    if let Some(l) = &s.long {
        a = a.long(l.clone());
    }
    // every list goes through both declaration routes: the first entry through the singular setter,
    // the others through the plural one (the two must add up)
    if let Some((f, rest)) = s.aliases.split_first() {
        a = a.alias(f.clone());
        if !rest.is_empty() {
            a = a.aliases(rest.iter().cloned());
        }
    }
    if let Some((f, rest)) = s.visible_aliases.split_first() {
        a = a.visible_alias(f.clone());
        if !rest.is_empty() {
            a = a.visible_aliases(rest.iter().cloned());
        }
    }
    if let Some((f, rest)) = s.short_aliases.split_first() {
        a = a.short_alias(*f);
        if !rest.is_empty() {
            a = a.short_aliases(rest.iter().copied());
        }
    }
    if let Some((f, rest)) = s.visible_short_aliases.split_first() {
        a = a.visible_short_alias(*f);
        if !rest.is_empty() {
            a = a.visible_short_aliases(rest.iter().copied());
        }
    }
    if let Some(i) = s.index {
        a = a.index(i);
    }
    if let Some(act) = s.action {
        a = a.action(action_of(act));
    }
    if let Some((lo, hi)) = s.num_args {
        a = match hi {
            Some(h) => a.num_args(lo..=h),
            None => a.num_args(lo..),
        };
    }
    if let Some(d) = s.delimiter {
        a = a.value_delimiter(d);
    }
    if let Some(t) = &s.terminator {
        a = a.value_terminator(t.clone());
    }
    if s.require_equals {
        a = a.require_equals(true);
    }
    if s.allow_hyphen_values {
        a = a.allow_hyphen_values(true);
    }
    if s.allow_negative_numbers {
        a = a.allow_negative_numbers(true);
    }
    if s.last {
        a = a.last(true);
    }
    if s.trailing_var_arg {
        a = a.trailing_var_arg(true);
    }
    if s.required {
        a = a.required(true);
    }
    if s.global {
        a = a.global(true);
    }
    if s.exclusive {
        a = a.exclusive(true);
    }
    if s.hide {
        a = a.hide(true);
    }
    // per-mode hiding: when either is asked for, both setters are called, the other one with
    // `false` (saying "not hidden" must not disturb the other mode)
    if s.hide_short_help || s.hide_long_help {
        a = a.hide_short_help(s.hide_short_help).hide_long_help(s.hide_long_help);
    }
    if s.next_line_help {
        a = a.next_line_help(true);
    }
    if s.hide_possible_values {
        a = a.hide_possible_values(true);
    }
    if s.hide_default_value {
        a = a.hide_default_value(true);
    }
    if s.hide_env {
        a = a.hide_env(true);
    }
    if let Some(h) = &s.help_heading {
        a = a.help_heading(h.clone());
    }
    if s.ignore_case {
        a = a.ignore_case(true);
    }
    match &s.parser {
        Vp::Default => {}
        Vp::Str => a = a.value_parser(value_parser!(String)),
        Vp::Os => a = a.value_parser(value_parser!(std::ffi::OsString)),
        Vp::U8 => a = a.value_parser(value_parser!(u8)),
        Vp::I64 => a = a.value_parser(value_parser!(i64)),
        Vp::Bool => a = a.value_parser(value_parser!(bool)),
        Vp::Boolish => a = a.value_parser(clap::builder::BoolishValueParser::new()),
        Vp::Falsey => a = a.value_parser(clap::builder::FalseyValueParser::new()),
        Vp::NonEmpty => a = a.value_parser(clap::builder::NonEmptyStringValueParser::new()),
        Vp::U8New => a = a.value_parser(clap::builder::RangedI64ValueParser::<u8>::new()),
        Vp::PathBuf => a = a.value_parser(value_parser!(std::path::PathBuf)),
        Vp::Enum => a = a.value_parser(clap::builder::EnumValueParser::<ModelSpeed>::new()),
        Vp::Pv(pvs) => {
            let vals: Vec<PossibleValue> = pvs
                .iter()
                .map(|p| {
                    let mut v = PossibleValue::new(p.name.clone());
                    for al in &p.aliases {
                        v = v.alias(al.clone());
                    }
                    if p.hide {
                        v = v.hide(true);
                    }
                    if let Some(h) = &p.help {
                        v = v.help(h.clone());
                    }
                    v
                })
                .collect();
            use clap::builder::TypedValueParser;
            a = match s.pv_adaptor {
                1 => a.value_parser(clap::builder::PossibleValuesParser::new(vals).try_map(|v: String| Ok::<String, std::convert::Infallible>(v))),
                2 => a.value_parser(clap::builder::PossibleValuesParser::new(vals).map(|v: String| v)),
                _ => a.value_parser(ValueParser::from(vals)),
            };
        }
    }
    match s.default.len() {
        0 => {}
        1 => a = a.default_value(s.default[0].clone()),
        _ => a = a.default_values(s.default.clone()),
    }
    let pred_of = |d: &DefaultIf| match &d.equals {
        None => ArgPredicate::IsPresent,
        Some(v) => ArgPredicate::Equals(ClapOsStr::from(v.clone())),
    };
    if let Some((d, rest)) = s.default_ifs.split_first() {
        a = match &d.value {
            Some(v) => a.default_value_if(d.other.clone(), pred_of(d), ClapOsStr::from(v.clone())),
            None => a.default_value_if(d.other.clone(), pred_of(d), clap::builder::Resettable::Reset),
        };
        if !rest.is_empty() {
            a = a.default_value_ifs(rest.iter().map(|d| (d.other.clone(), pred_of(d), match &d.value {
                Some(v) => clap::builder::Resettable::Value(ClapOsStr::from(v.clone())),
                None => clap::builder::Resettable::Reset,
            })));
        }
    }
    match s.default_missing.len() {
        0 => {}
        1 => a = a.default_missing_value(s.default_missing[0].clone()),
        _ => a = a.default_missing_values(s.default_missing.clone()),
    }
    if let Some(e) = &s.env {
        a = a.env(e.clone());
    }
    if let Some((f, rest)) = s.conflicts.split_first() {
        a = a.conflicts_with(f.clone());
        if !rest.is_empty() {
            a = a.conflicts_with_all(rest.iter().cloned());
        }
    }
    for x in &s.requires {
        a = a.requires(x.clone());
    }
    if let Some(((v, id), rest)) = s.requires_ifs.split_first() {
        a = a.requires_if(v.clone(), id.clone());
        if !rest.is_empty() {
            a = a.requires_ifs(rest.iter().map(|(v, id)| (v.clone(), id.clone())));
        }
    }
    // one relation goes through `overrides_with`; a self-override alone, and every further relation,
    // through `overrides_with_all` (both setters add to what is already stored)
    if s.overrides.len() == 1 && s.overrides[0] == s.id {
        a = a.overrides_with_all([s.overrides[0].clone()]);
    } else if let Some((first, rest)) = s.overrides.split_first() {
        a = a.overrides_with(first.clone());
        if !rest.is_empty() {
            a = a.overrides_with_all(rest.iter().cloned());
        }
    }
    for (o, v) in &s.required_if_eq {
        a = a.required_if_eq(o.clone(), v.clone());
    }
    if !s.required_if_eq_any.is_empty() {
        a = a.required_if_eq_any(s.required_if_eq_any.clone());
    }
    if !s.required_if_eq_all.is_empty() {
        a = a.required_if_eq_all(s.required_if_eq_all.clone());
    }
    for x in &s.required_unless {
        a = a.required_unless_present(x.clone());
    }
    if !s.required_unless_any.is_empty() {
        a = a.required_unless_present_any(s.required_unless_any.clone());
    }
    if !s.required_unless_all.is_empty() {
        a = a.required_unless_present_all(s.required_unless_all.clone());
    }
    if let Some((f, rest)) = s.groups.split_first() {
        a = a.group(f.clone());
        if !rest.is_empty() {
            a = a.groups(rest.iter().cloned());
        }
    }
    if let Some(h) = &s.help {
        a = a.help(h.clone());
    }
    if let Some(h) = &s.long_help {
        a = a.long_help(h.clone());
    }
    if !s.value_names.is_empty() {
        a = a.value_names(s.value_names.clone());
    }
    if let Some(o) = s.display_order {
        a = a.display_order(o);
    }
    if let Some(h) = &s.value_hint {
        use clap::ValueHint as H;
        a = a.value_hint(match h.as_str() {
            "AnyPath" => H::AnyPath,
            "FilePath" => H::FilePath,
            "DirPath" => H::DirPath,
            "ExecutablePath" => H::ExecutablePath,
            "CommandName" => H::CommandName,
            "CommandString" => H::CommandString,
            "CommandWithArguments" => H::CommandWithArguments,
            "Username" => H::Username,
            "Hostname" => H::Hostname,
            "Url" => H::Url,
            "EmailAddress" => H::EmailAddress,
            "Other" => H::Other,
            _ => H::Unknown,
        });
    }
    a
}

pub fn build_group(g: &GroupSpec) -> ArgGroup {
    let mut x = ArgGroup::new(g.id.clone());
    for a in &g.args {
        x = x.arg(a.clone());
    }
    if g.required {
        x = x.required(true);
    }
    if g.multiple {
        x = x.multiple(true);
    }
    for c in &g.conflicts {
        x = x.conflicts_with(c.clone());
    }
    for r in &g.requires {
        x = x.requires(r.clone());
    }
    x
}

/// Translate the spec to a `Command` (not yet built — `Command::build` or a parse does that and
/// runs the library's own validity gate when debug assertions are on).
pub fn build(s: &CmdSpec) -> Command {
    let mut c = Command::new(s.name.clone());
    c = c.color(clap::ColorChoice::Never);
    // (first entry through the singular setter, the others through the plural one)
    if let Some((f, rest)) = s.aliases.split_first() {
        c = c.alias(f.clone());
        if !rest.is_empty() {
            c = c.aliases(rest.iter().cloned());
        }
    }
    if let Some((f, rest)) = s.visible_aliases.split_first() {
        c = c.visible_alias(f.clone());
        if !rest.is_empty() {
            c = c.visible_aliases(rest.iter().cloned());
        }
    }
    if let Some(f) = s.short_flag {
        c = c.short_flag(f);
    }
    if let Some(f) = &s.long_flag {
        c = c.long_flag(f.clone());
    }
    if let Some((f, rest)) = s.short_flag_aliases.split_first() {
        c = c.short_flag_alias(*f);
        if !rest.is_empty() {
            c = c.short_flag_aliases(rest.iter().copied());
        }
    }
    if let Some((f, rest)) = s.long_flag_aliases.split_first() {
        c = c.long_flag_alias(f.clone());
        if !rest.is_empty() {
            c = c.long_flag_aliases(rest.iter().cloned());
        }
    }
    for x in &s.visible_short_flag_aliases {
        c = c.visible_short_flag_alias(*x);
    }
    for x in &s.visible_long_flag_aliases {
        c = c.visible_long_flag_alias(x.clone());
    }
    c = build_rest(c, s);
    if let Some(st) = s.deferred_setting {
        c = c.defer(deferred_fn(st));
    }
    c
}

/// The subcommand a `subs_deferred` command gets from its deferred closure
pub fn deferred_leaf_spec() -> CmdSpec {
    let mut l = CmdSpec::new("leaf");
    l.args.push(ArgSpec::flag("z", Some('z'), Some("zulu")));
    l
}

fn deferred_fn(st: Setting) -> fn(Command) -> Command {
    macro_rules! f {
        ($($v:ident),*) => {
            match st {
                $(Setting::$v => { fn g(c: Command) -> Command { apply_setting(c, Setting::$v, true) } g })*
            }
        };
    }
    f!(ArgsConflictsWithSubcommands, SubcommandPrecedenceOverArg, InferLongArgs, InferSubcommands, ArgsOverrideSelf, DontDelimitTrailingValues,
       AllowMissingPositional, SubcommandNegatesReqs, SubcommandRequired, ArgRequiredElseHelp, DisableHelpFlag, DisableHelpSubcommand,
       DisableVersionFlag, Multicall, NoBinaryName, PropagateVersion, IgnoreErrors, NextLineHelp, FlattenHelp, HidePossibleValues, DontCollapseArgsInUsage)
}

fn build_rest(mut c: Command, s: &CmdSpec) -> Command {
    if s.next_display_order_none {
        c = c.next_display_order(None);
    }
    for st in &s.toggled {
        c = apply_setting(apply_setting(c, *st, true), *st, false);
    }
    for st in &s.settings {
        c = apply_setting(c, *st, true);
    }
    if let Some(v) = &s.version {
        c = c.version(v.clone());
    }
    if let Some(v) = &s.long_version {
        c = c.long_version(v.clone());
    }
    if let Some(v) = &s.about {
        c = c.about(v.clone());
    }
    if let Some(v) = &s.long_about {
        c = c.long_about(v.clone());
    }
    if let Some(v) = &s.before_help {
        c = c.before_help(v.clone());
    }
    if let Some(v) = &s.before_long_help {
        c = c.before_long_help(v.clone());
    }
    if let Some(v) = &s.after_help {
        c = c.after_help(v.clone());
    }
    if let Some(v) = &s.after_long_help {
        c = c.after_long_help(v.clone());
    }
    if let Some(v) = &s.author {
        c = c.author(v.clone());
    }
    if let Some(w) = s.term_width {
        c = c.term_width(w);
    }
    if let Some(w) = s.max_term_width {
        c = c.max_term_width(w);
    }
    if let Some(t) = &s.template {
        c = c.help_template(t.clone());
    }
    match s.external {
        None => {}
        Some(Ext::Str) => {
            c = c
                .allow_external_subcommands(true)
                .external_subcommand_value_parser(value_parser!(String));
        }
        Some(Ext::Os) => {
            c = c.allow_external_subcommands(true);
        }
    }
    if s.hide {
        c = c.hide(true);
    }
    if let Some(h) = &s.subcommand_help_heading {
        c = c.subcommand_help_heading(h.clone());
    }
    if let Some(h) = &s.subcommand_value_name {
        c = c.subcommand_value_name(h.clone());
    }
    if let Some(h) = &s.next_help_heading {
        c = c.next_help_heading(h.clone());
    }
    if let Some(b) = &s.bin_name {
        c = c.bin_name(b.clone());
    }
    if let Some(b) = &s.display_name {
        c = c.display_name(b.clone());
    }
    if let Some(u) = &s.override_usage {
        c = c.override_usage(u.clone());
    }
    if let Some((f, rest)) = s.args.split_first() {
        c = c.arg(build_arg(f));
        if !rest.is_empty() {
            c = c.args(rest.iter().map(build_arg));
        }
    }
    if let Some((f, rest)) = s.groups.split_first() {
        c = c.group(build_group(f));
        if !rest.is_empty() {
            c = c.groups(rest.iter().map(build_group));
        }
    }
    if s.subs_deferred {
        assert!(s.subs.len() == 1 && s.subs[0] == deferred_leaf_spec(), "subs_deferred: the subcommands must be the fixed leaf");
        fn add_leaf(c: Command) -> Command {
            c.subcommand(build(&deferred_leaf_spec()))
        }
        c = c.defer(add_leaf);
    } else {
        if let Some((f, rest)) = s.subs.split_first() {
            c = c.subcommand(build(f));
            if !rest.is_empty() {
                c = c.subcommands(rest.iter().map(build));
            }
        }
    }
    for id in &s.touch {
        c = c.mut_arg(id.clone(), |a| a);
    }
    c
}

/// The library's own validity gate: `Command::build` runs every debug assertion of
/// `debug_asserts.rs` for the whole tree. `None` = rejected (panic message in Err).
pub fn build_valid(s: &CmdSpec) -> Result<Command, mccore::PanicInfo> {
    mccore::catch(|| {
        let mut c = build(s);
        c.build();
        // `build()` has mutated the definition (propagation, help/version args); properties are
        // about definitions as the user wrote them, so hand back a fresh, unbuilt one.
        build(s)
    })
}

fn apply_setting(c: clap::Command, st: Setting, on: bool) -> clap::Command {
    match st {
        Setting::ArgsConflictsWithSubcommands => c.args_conflicts_with_subcommands(on),
        Setting::SubcommandPrecedenceOverArg => c.subcommand_precedence_over_arg(on),
        Setting::InferLongArgs => c.infer_long_args(on),
        Setting::InferSubcommands => c.infer_subcommands(on),
        Setting::ArgsOverrideSelf => c.args_override_self(on),
        Setting::DontDelimitTrailingValues => c.dont_delimit_trailing_values(on),
        Setting::AllowMissingPositional => c.allow_missing_positional(on),
        Setting::SubcommandNegatesReqs => c.subcommand_negates_reqs(on),
        Setting::SubcommandRequired => c.subcommand_required(on),
        Setting::ArgRequiredElseHelp => c.arg_required_else_help(on),
        Setting::DisableHelpFlag => c.disable_help_flag(on),
        Setting::DisableHelpSubcommand => c.disable_help_subcommand(on),
        Setting::DisableVersionFlag => c.disable_version_flag(on),
        Setting::Multicall => c.multicall(on),
        Setting::NoBinaryName => c.no_binary_name(on),
        Setting::PropagateVersion => c.propagate_version(on),
        Setting::IgnoreErrors => c.ignore_errors(on),
        Setting::NextLineHelp => c.next_line_help(on),
        Setting::FlattenHelp => c.flatten_help(on),
        Setting::HidePossibleValues => c.hide_possible_values(on),
        Setting::DontCollapseArgsInUsage => c.dont_collapse_args_in_usage(on),
    }
}
