//! The dev(d) configuration family: a base command plus every set of <= d deviations from a
//! catalogue, each toggling one feature (DESIGN §3.2), and the token alphabet A(cfg) (§3.3).

use crate::spec::*;

pub struct Deviation {
    pub name: &'static str,
    pub apply: fn(&mut CmdSpec),
}

/// prog [-a|--alpha] [-o|--opt <v>] [p]  sub [-x|--xray]
pub fn base() -> CmdSpec {
    let mut c = CmdSpec::new("prog");
    c.args.push(ArgSpec::flag("a", Some('a'), Some("alpha")));
    c.args.push(ArgSpec::opt("o", Some('o'), Some("opt")));
    c.args.push(ArgSpec::pos("p", 1));
    let mut sub = CmdSpec::new("sub");
    sub.args.push(ArgSpec::flag("x", Some('x'), Some("xray")));
    c.subs.push(sub);
    c
}

fn o(c: &mut CmdSpec) -> &mut ArgSpec {
    c.arg_mut("o").unwrap()
}
fn a(c: &mut CmdSpec) -> &mut ArgSpec {
    c.arg_mut("a").unwrap()
}
fn p(c: &mut CmdSpec) -> &mut ArgSpec {
    c.arg_mut("p").unwrap()
}
fn sub(c: &mut CmdSpec) -> &mut CmdSpec {
    c.subs.iter_mut().find(|s| s.name == "sub").unwrap()
}
fn ensure_group(c: &mut CmdSpec, id: &str) -> usize {
    if let Some(i) = c.groups.iter().position(|g| g.id == id) {
        return i;
    }
    c.groups.push(GroupSpec { id: id.into(), ..Default::default() });
    c.groups.len() - 1
}

macro_rules! dev {
    ($name:literal, |$c:ident| $body:block) => {
        Deviation {
            name: $name,
            apply: {
                fn f($c: &mut CmdSpec) $body
                f
            },
        }
    };
}

pub fn catalogue() -> Vec<Deviation> {
    vec![
        // ---- command settings
        dev!("args_conflicts_with_subcommands", |c| { c.set(Setting::ArgsConflictsWithSubcommands); }),
        dev!("subcommand_precedence_over_arg", |c| { c.set(Setting::SubcommandPrecedenceOverArg); }),
        dev!("external_subcommands_str", |c| { c.external = Some(Ext::Str); }),
        dev!("external_subcommands_os", |c| { c.external = Some(Ext::Os); }),
        dev!("infer_long_args", |c| { c.set(Setting::InferLongArgs); }),
        dev!("infer_subcommands", |c| { c.set(Setting::InferSubcommands); }),
        dev!("args_override_self", |c| { c.set(Setting::ArgsOverrideSelf); }),
        dev!("dont_delimit_trailing_values", |c| { c.set(Setting::DontDelimitTrailingValues); }),
        dev!("allow_missing_positional", |c| { c.set(Setting::AllowMissingPositional); }),
        dev!("subcommand_negates_reqs", |c| { c.set(Setting::SubcommandNegatesReqs); }),
        dev!("subcommand_required", |c| { c.set(Setting::SubcommandRequired); }),
        dev!("arg_required_else_help", |c| { c.set(Setting::ArgRequiredElseHelp); }),
        dev!("disable_help_flag", |c| { c.set(Setting::DisableHelpFlag); }),
        dev!("disable_help_subcommand", |c| { c.set(Setting::DisableHelpSubcommand); }),
        dev!("version_propagated", |c| { c.version = Some("1.0".into()); c.set(Setting::PropagateVersion); }),
        dev!("version_disabled_flag", |c| { c.version = Some("1.0".into()); c.set(Setting::DisableVersionFlag); }),
        dev!("deferred_ignore_errors", |c| { c.deferred_setting = Some(Setting::IgnoreErrors); }),
        dev!("deferred_infer_subcommands", |c| { c.deferred_setting = Some(Setting::InferSubcommands); }),
        dev!("no_binary_name", |c| { c.set(Setting::NoBinaryName); }),
        // ---- option shape
        dev!("opt_num_args_0_1", |c| { o(c).num_args = Some((0, Some(1))); }),
        dev!("opt_num_args_1_2", |c| { o(c).num_args = Some((1, Some(2))); }),
        dev!("opt_num_args_2", |c| { o(c).num_args = Some((2, Some(2))); }),
        dev!("opt_num_args_0_inf", |c| { o(c).num_args = Some((0, None)); }),
        dev!("opt_require_equals", |c| { o(c).require_equals = true; }),
        dev!("opt_delimiter", |c| { o(c).delimiter = Some(','); }),
        dev!("opt_delimiter_wide", |c| { o(c).delimiter = Some('、'); }),
        dev!("opt_terminator", |c| {
            o(c).terminator = Some(";".into());
            if o(c).num_args.is_none() { o(c).num_args = Some((1, None)); }
        }),
        dev!("opt_allow_hyphen_values", |c| { o(c).allow_hyphen_values = true; }),
        dev!("opt_allow_negative_numbers", |c| { o(c).allow_negative_numbers = true; }),
        dev!("opt_default_missing", |c| {
            o(c).default_missing = vec!["dm".into()];
            if o(c).num_args.is_none() { o(c).num_args = Some((0, Some(1))); }
        }),
        dev!("opt_append", |c| { o(c).action = Some(Act::Append); }),
        dev!("opt_global", |c| { o(c).global = true; }),
        dev!("opt_exclusive", |c| { o(c).exclusive = true; }),
        dev!("opt_required", |c| { o(c).required = true; }),
        dev!("opt_in_group_with_a", |c| {
            let g = ensure_group(c, "g");
            c.groups[g].args.push("o".into());
            c.groups[g].args.push("a".into());
        }),
        dev!("opt_conflicts_a", |c| { o(c).conflicts.push("a".into()); }),
        dev!("opt_requires_a", |c| { o(c).requires.push("a".into()); }),
        dev!("flag_requires_opt", |c| { a(c).requires.push("o".into()); }),
        dev!("third_flag_requires_a", |c| {
            let mut f = ArgSpec::flag("c", Some('c'), Some("charlie"));
            f.requires.push("a".into());
            c.args.push(f);
        }),
        dev!("opt_overrides_a", |c| { o(c).overrides.push("a".into()); }),
        dev!("opt_overrides_self", |c| { o(c).overrides.push("o".into()); }),
        dev!("opt_parser_u8", |c| { o(c).parser = Vp::U8; }),
        dev!("opt_parser_u8_new", |c| { o(c).parser = Vp::U8New; }),
        dev!("opt_parser_pathbuf", |c| { o(c).parser = Vp::PathBuf; }),
        dev!("opt_possible_values", |c| {
            o(c).parser = Vp::Pv(vec![
                PvSpec { name: "v".into(), ..Default::default() },
                PvSpec { name: "w".into(), aliases: vec!["x".into()], ..Default::default() },
            ]);
        }),
        dev!("opt_default", |c| { o(c).default = vec!["d".into()]; }),
        dev!("opt_env", |c| { o(c).env = Some("CLAPMC_SET".into()); }),
        dev!("opt_os_parser", |c| { o(c).parser = Vp::Os; }),
        // ---- positional shape
        dev!("pos_one_or_more", |c| { p(c).num_args = Some((1, None)); }),
        dev!("pos_zero_or_more", |c| { p(c).num_args = Some((0, None)); }),
        dev!("pos_last", |c| { p(c).last = true; }),
        dev!("pos_trailing_var_arg", |c| {
            p(c).trailing_var_arg = true;
            if p(c).num_args.is_none() { p(c).num_args = Some((1, None)); }
        }),
        dev!("pos_allow_hyphen_values", |c| { p(c).allow_hyphen_values = true; }),
        dev!("pos_allow_negative_numbers", |c| { p(c).allow_negative_numbers = true; }),
        dev!("pos_required", |c| { p(c).required = true; }),
        dev!("second_positional", |c| { c.args.push(ArgSpec::pos("q", 2)); }),
        // the positional with the highest index is hidden, and required (directly or through the flag)
        dev!("second_positional_hidden_required", |c| {
            let mut q = ArgSpec::pos("q", 2);
            q.hide = true;
            q.required = true;
            c.args.push(q);
        }),
        dev!("second_positional_hidden_required_by_flag", |c| {
            let mut q = ArgSpec::pos("q", 2);
            q.hide = true;
            c.args.push(q);
            a(c).requires.push("q".into());
        }),
        dev!("pos_terminator", |c| {
            p(c).terminator = Some(";".into());
            if p(c).num_args.is_none() { p(c).num_args = Some((1, None)); }
        }),
        dev!("pos_delimiter", |c| { p(c).delimiter = Some(','); }),
        dev!("pos_delimiter_wide", |c| { p(c).delimiter = Some('、'); }),
        dev!("pos_os_parser", |c| { p(c).parser = Vp::Os; }),
        // ---- flag shape
        dev!("flag_count", |c| { a(c).action = Some(Act::Count); }),
        // no action given: `num_args(0)` alone makes it a SetTrue flag (bool parser, default false)
        dev!("flag_implied_by_num_args_0", |c| { a(c).action = None; a(c).num_args = Some((0, Some(0))); }),
        dev!("flag_short_only", |c| { a(c).long = None; }),
        dev!("flag_long_only", |c| { a(c).short = None; }),
        dev!("flag_aliases", |c| { a(c).aliases.push("alf".into()); a(c).short_aliases.push('A'); }),
        dev!("flag_hidden", |c| { a(c).hide = true; }),
        dev!("flag_in_required_group", |c| {
            let g = ensure_group(c, "g2");
            c.groups[g].args.push("a".into());
            c.groups[g].required = true;
        }),
        dev!("flag_global", |c| { a(c).global = true; }),
        dev!("flag_exclusive", |c| { a(c).exclusive = true; }),
        dev!("second_flag_shared_prefix", |c| { c.args.push(ArgSpec::flag("b", Some('b'), Some("alpine"))); }),
        // ---- subcommand shape
        dev!("sub_short_flag", |c| { sub(c).short_flag = Some('S'); }),
        dev!("sub_long_flag", |c| { sub(c).long_flag = Some("sync".into()); }),
        dev!("sub_alias", |c| { sub(c).aliases.push("s2".into()); }),
        dev!("sub_long_flag_alias", |c| {
            if sub(c).long_flag.is_none() { sub(c).long_flag = Some("sync".into()); }
            sub(c).long_flag_aliases.push("refresh".into());
        }),
        dev!("opt_possible_values_unicode_help", |c| {
            o(c).parser = Vp::Pv(vec![
                PvSpec { name: "s".into(), help: Some("short".into()), ..Default::default() },
                PvSpec { name: "größe".into(), help: Some("non-ASCII, widest".into()), ..Default::default() },
                PvSpec { name: "大".into(), help: Some("wide".into()), ..Default::default() },
            ]);
        }),
        dev!("opt_possible_values_all_hidden", |c| {
            o(c).parser = Vp::Pv(vec![
                PvSpec { name: "v".into(), hide: true, help: Some("hidden v".into()), ..Default::default() },
                PvSpec { name: "w".into(), hide: true, ..Default::default() },
            ]);
        }),
        dev!("long_about", |c| { c.long_about = Some("a long about text".into()); c.about = Some("about".into()); }),
        dev!("sub_nested", |c| {
            let mut d = CmdSpec::new("deep");
            d.short_flag = Some('D');
            d.args.push(ArgSpec::flag("y", Some('y'), Some("yank")));
            sub(c).subs.push(d);
        }),
        dev!("sub_flatten_help", |c| { sub(c).set(Setting::FlattenHelp); }),
        dev!("sub_required_opt", |c| {
            let mut r = ArgSpec::opt("req", Some('r'), Some("req"));
            r.required = true;
            sub(c).args.push(r);
        }),
        dev!("sub_hidden", |c| { sub(c).hide = true; }),
        dev!("touch_pos", |c| { c.touch.push("p".into()); }),
        dev!("touch_flag", |c| { c.touch.push("a".into()); }),
        dev!("sub_positional", |c| { sub(c).args.push(ArgSpec::pos("sp", 1)); }),
        dev!("sub_positional_hyphen", |c| {
            let mut p = ArgSpec::pos("sp", 1);
            p.allow_hyphen_values = true;
            sub(c).args.push(p);
        }),
        dev!("second_sub_shared_prefix", |c| {
            let mut s = CmdSpec::new("sum");
            s.short_flag = Some('Q');
            s.args.push(ArgSpec::flag("y", Some('y'), None));
            c.subs.push(s);
        }),
        dev!("multicall", |c| {
            // multicall commands cannot carry arguments of their own
            c.args.clear();
            c.groups.clear();
            c.set(Setting::Multicall);
        }),
    ]
}

/// All configurations with at most `d` deviations, ascending by deviation count.
pub fn dev_configs(d: usize) -> Vec<(Vec<&'static str>, CmdSpec)> {
    let cat = catalogue();
    let mut out = vec![];
    for set in mccore::subsets_upto(cat.len(), d) {
        let mut c = base();
        for &i in &set {
            (cat[i].apply)(&mut c);
        }
        out.push((set.iter().map(|&i| cat[i].name).collect(), c));
    }
    out
}

/// Token alphabet derived from the configuration, simplest first.
pub fn alphabet(c: &CmdSpec) -> Vec<Vec<u8>> {
    let mut t: Vec<Vec<u8>> = Vec::new();
    let mut add = |s: &[u8]| {
        if !t.iter().any(|x| x == s) {
            t.push(s.to_vec());
        }
    };
    for s in ["v", "-a", "--alpha", "-o", "--opt", "--opt=v", "-ov", "sub", "--", "-x", "-ao", "-o=v", "--opt=", "", "-", "w,x", "-1", "-z", "--unk", "--alph", "-h", "--help", "-V", "help"] {
        add(s.as_bytes());
    }
    let has_dev = |f: &dyn Fn(&CmdSpec) -> bool| f(c);
    if has_dev(&|c| c.args.iter().any(|a| matches!(a.parser, Vp::U8 | Vp::U8New | Vp::I64))) {
        add(b"--opt=300");
        add(b"--opt=7");
    }
    if has_dev(&|c| c.args.iter().any(|a| a.terminator.is_some())) {
        add(b";");
    }
    if has_dev(&|c| c.args.iter().any(|a| a.delimiter.map(|d| !d.is_ascii()).unwrap_or(false))) {
        add("w、x".as_bytes());
        add("--opt=w、".as_bytes());
        add("-ow、x".as_bytes());
        // values that end inside the delimiter's own byte sequence (E3 80 81): not valid UTF-8
        add(b"w\xe3");
        add(b"--opt=w\xe3\x80");
        add(b"-ow\xe3");
    }
    if c.has(Setting::InferLongArgs) {
        add(b"--al");
        add(b"--op");
    }
    if c.has(Setting::InferSubcommands) {
        add(b"su");
    }
    if c.arg("a").map(|a| !a.aliases.is_empty()).unwrap_or(false) {
        add(b"--alf");
        add(b"-A");
    }
    if c.arg("b").is_some() {
        add(b"--alpine");
        add(b"-ab");
    }
    if c.arg("c").is_some() {
        add(b"-c");
    }
    if c.arg("q").is_some() || c.arg("p").map(|p| p.num_args.is_some()).unwrap_or(false) {
        add(b"u");
    }
    if let Some(s) = c.sub("sub") {
        if s.short_flag.is_some() {
            add(b"-S");
            add(b"-Sx");
            add(b"-aS");
            add(b"-aSx");
        }
        if s.long_flag.is_some() {
            add(b"--sync");
        }
        if !s.long_flag_aliases.is_empty() {
            add(b"--refresh");
            add(b"--refr");
        }
        if !s.aliases.is_empty() {
            add(b"s2");
        }
        if !s.subs.is_empty() {
            add(b"deep");
            add(b"-y");
            add(b"-Dy");
        }
        if s.arg("req").is_some() {
            add(b"--req");
            add(b"-rv");
        }
    }
    if c.sub("sum").is_some() {
        add(b"sum");
        add(b"-Qy");
        add(b"-y");
    }
    if c.version.is_some() {
        add(b"--version");
    }
    if c.external.is_some() {
        add(b"ext");
    }
    add(b"\xff");
    add(b"--opt=\xff");
    add(b"-\xff");
    add(b"--\xff");
    t
}
