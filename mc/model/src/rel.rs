//! The `rel` family: relation graphs over four flags, one option and two groups (DESIGN §4 C03).

use crate::spec::*;

pub struct Edge {
    pub name: String,
    pub apply: Box<dyn Fn(&mut CmdSpec) + Send + Sync>,
}

/// flags a,b,c,d (long only), option o (values x|y), subcommand `sub`
pub fn base() -> CmdSpec {
    let mut c = CmdSpec::new("prog");
    for n in ["a", "b", "c", "d"] {
        // `b` also has a short, so that a line can give it twice with two distinct tokens
        c.args.push(ArgSpec::flag(n, if n == "b" { Some('b') } else { None }, Some(n)));
    }
    c.args.push(ArgSpec::opt("o", None, Some("o")));
    let mut s = CmdSpec::new("sub");
    s.args.push(ArgSpec::flag("x", None, Some("x")));
    c.subs.push(s);
    c
}

fn group<'a>(c: &'a mut CmdSpec, id: &str, default_members: &[&str]) -> &'a mut GroupSpec {
    if !c.groups.iter().any(|g| g.id == id) {
        c.groups.push(GroupSpec {
            id: id.into(),
            args: default_members.iter().map(|s| s.to_string()).collect(),
            ..Default::default()
        });
    }
    c.groups.iter_mut().find(|g| g.id == id).unwrap()
}

pub fn catalogue() -> Vec<Edge> {
    let mut v: Vec<Edge> = vec![];
    let mut e = |name: String, f: Box<dyn Fn(&mut CmdSpec) + Send + Sync>| v.push(Edge { name, apply: f });
    let four = ["a", "b", "c", "o"];
    for x in four {
        for y in four {
            if x != y {
                let (xs, ys) = (x.to_string(), y.to_string());
                e(format!("{x}.conflicts_with({y})"), Box::new(move |c| c.arg_mut(&xs).unwrap().conflicts.push(ys.clone())));
                let (xs, ys) = (x.to_string(), y.to_string());
                e(format!("{x}.requires({y})"), Box::new(move |c| c.arg_mut(&xs).unwrap().requires.push(ys.clone())));
            }
        }
    }
    for x in ["a", "c", "o"] {
        let xs = x.to_string();
        e(format!("{x}.conflicts_with(g1)"), Box::new(move |c| {
            group(c, "g1", &["a", "b"]);
            c.arg_mut(&xs).unwrap().conflicts.push("g1".into());
        }));
    }
    for y in ["c", "o"] {
        let ys = y.to_string();
        e(format!("g1.conflicts_with({y})"), Box::new(move |c| group(c, "g1", &["a", "b"]).conflicts.push(ys.clone())));
    }
    e("g1.conflicts_with(g2)".into(), Box::new(|c| {
        group(c, "g2", &["c", "d"]);
        group(c, "g1", &["a", "b"]).conflicts.push("g2".into());
    }));
    for x in ["a", "o"] {
        let xs = x.to_string();
        e(format!("{x}.exclusive"), Box::new(move |c| c.arg_mut(&xs).unwrap().exclusive = true));
    }
    for (x, y) in [("a", "b"), ("b", "a"), ("o", "a"), ("a", "o"), ("c", "b")] {
        let (xs, ys) = (x.to_string(), y.to_string());
        e(format!("{x}.overrides_with({y})"), Box::new(move |c| c.arg_mut(&xs).unwrap().overrides.push(ys.clone())));
    }
    e("a.requires(g1={b,c})".into(), Box::new(|c| {
        group(c, "g1", &["b", "c"]);
        c.arg_mut("a").unwrap().requires.push("g1".into());
    }));
    for y in ["a", "b"] {
        let ys = y.to_string();
        e(format!("o.requires_if(x,{y})"), Box::new(move |c| c.arg_mut("o").unwrap().requires_ifs.push(("x".into(), ys.clone()))));
    }
    e("group g1={a,b}".into(), Box::new(|c| { group(c, "g1", &["a", "b"]); }));
    e("group g1={a,b} multiple".into(), Box::new(|c| { group(c, "g1", &["a", "b"]).multiple = true; }));
    e("group g2={c,d}".into(), Box::new(|c| { group(c, "g2", &["c", "d"]); }));
    e("group g2={b,c}".into(), Box::new(|c| { group(c, "g2", &["b", "c"]); }));
    e("group g2={b,c} multiple".into(), Box::new(|c| { group(c, "g2", &["b", "c"]).multiple = true; }));
    e("group g1={a,o}".into(), Box::new(|c| { group(c, "g1", &["a", "o"]); }));
    // `b` is listed by g1 and names g1 itself as well, then names a second group
    // (a group of its own, g3, so that the edge does not meet the relations declared between g1 and g2)
    e("b.group(g1 again, then g3={c})".into(), Box::new(|c| {
        group(c, "g1", &["a", "b"]);
        group(c, "g3", &["c"]);
        let b = c.arg_mut("b").unwrap();
        b.groups.push("g1".into());
        b.groups.push("g3".into());
    }));
    e("g1.required".into(), Box::new(|c| { group(c, "g1", &["a", "b"]).required = true; }));
    e("g2.required".into(), Box::new(|c| { group(c, "g2", &["c", "d"]).required = true; }));
    e("g1.requires(c)".into(), Box::new(|c| { group(c, "g1", &["a", "b"]).requires.push("c".into()); }));
    e("g1.requires(g2)".into(), Box::new(|c| {
        group(c, "g2", &["c", "d"]);
        group(c, "g1", &["a", "b"]).requires.push("g2".into());
    }));
    for x in ["a", "c", "o"] {
        let xs = x.to_string();
        e(format!("{x}.required"), Box::new(move |c| c.arg_mut(&xs).unwrap().required = true));
    }
    e("a.required_unless_present(b)".into(), Box::new(|c| c.arg_mut("a").unwrap().required_unless.push("b".into())));
    e("a.required_unless_present(c)".into(), Box::new(|c| c.arg_mut("a").unwrap().required_unless.push("c".into())));
    e("a.required_unless_present_any(b,c)".into(), Box::new(|c| c.arg_mut("a").unwrap().required_unless_any = vec!["b".into(), "c".into()]));
    e("a.required_unless_present_all(b,c)".into(), Box::new(|c| c.arg_mut("a").unwrap().required_unless_all = vec!["b".into(), "c".into()]));
    e("o.required_unless_present(a)".into(), Box::new(|c| c.arg_mut("o").unwrap().required_unless.push("a".into())));
    e("a.required_if_eq(o,x)".into(), Box::new(|c| c.arg_mut("a").unwrap().required_if_eq.push(("o".into(), "x".into()))));
    e("b.required_if_eq_any(o=x|o=y)".into(), Box::new(|c| c.arg_mut("b").unwrap().required_if_eq_any = vec![("o".into(), "x".into()), ("o".into(), "y".into())]));
    // the "any" and the "all" rule on one argument: either one makes it required
    e("b.required_if_eq_all(o=y&a=true)".into(), Box::new(|c| c.arg_mut("b").unwrap().required_if_eq_all = vec![("o".into(), "y".into()), ("a".into(), "true".into())]));
    e("c.required_if_eq(o,y)".into(), Box::new(|c| c.arg_mut("c").unwrap().required_if_eq.push(("o".into(), "y".into()))));
    e("c.required_if_eq_all(o=x&a=true)".into(), Box::new(|c| c.arg_mut("c").unwrap().required_if_eq_all = vec![("o".into(), "x".into()), ("a".into(), "true".into())]));
    e("o.default_value(x)".into(), Box::new(|c| c.arg_mut("o").unwrap().default = vec!["x".into()]));
    e("b.env(set to true)".into(), Box::new(|c| c.arg_mut("b").unwrap().env = Some("CLAPMC_TRUE".into())));
    e("o.env(set to x)".into(), Box::new(|c| c.arg_mut("o").unwrap().env = Some("CLAPMC_X".into())));
    e("subcommand_negates_reqs".into(), Box::new(|c| c.set(Setting::SubcommandNegatesReqs)));
    e("args_conflicts_with_subcommands".into(), Box::new(|c| c.set(Setting::ArgsConflictsWithSubcommands)));
    e("args_override_self".into(), Box::new(|c| c.set(Setting::ArgsOverrideSelf)));
    e("o.append".into(), Box::new(|c| c.arg_mut("o").unwrap().action = Some(Act::Append)));
    e("b.count".into(), Box::new(|c| {
        let b = c.arg_mut("b").unwrap();
        b.action = Some(Act::Count);
        if b.env.is_some() {
            // the environment value has to be in the counter's language
            b.env = Some("CLAPMC_COUNT".into());
        }
    }));
    e("c.overrides_with(o)".into(), Box::new(|c| c.arg_mut("c").unwrap().overrides.push("o".into())));
    e("a.required_unless_present(g2={c,d})".into(), Box::new(|c| {
        group(c, "g2", &["c", "d"]);
        c.arg_mut("a").unwrap().required_unless.push("g2".into());
    }));
    e("c.required_unless_present(g1={a,b})".into(), Box::new(|c| {
        group(c, "g1", &["a", "b"]);
        c.arg_mut("c").unwrap().required_unless.push("g1".into());
    }));
    e("d.requires(c)".into(), Box::new(|c| c.arg_mut("d").unwrap().requires.push("c".into())));
    e("d.conflicts_with(a)".into(), Box::new(|c| c.arg_mut("d").unwrap().conflicts.push("a".into())));
    e("d.required".into(), Box::new(|c| c.arg_mut("d").unwrap().required = true));
    e("g2.conflicts_with(a)".into(), Box::new(|c| group(c, "g2", &["c", "d"]).conflicts.push("a".into())));
    e("g1.requires(o)".into(), Box::new(|c| { group(c, "g1", &["a", "b"]).requires.push("o".into()); }));
    e("o.requires_if(y,c)".into(), Box::new(|c| c.arg_mut("o").unwrap().requires_ifs.push(("y".into(), "c".into()))));
    e("arg_required_else_help".into(), Box::new(|c| c.set(Setting::ArgRequiredElseHelp)));
    for x in ["a", "b"] {
        let xs = x.to_string();
        e(format!("{x}.hide"), Box::new(move |c| c.arg_mut(&xs).unwrap().hide = true));
    }
    v
}

/// All graphs with at most `k` edges, ascending by edge count.
pub fn graphs(k: usize) -> Vec<(Vec<String>, CmdSpec)> {
    let cat = catalogue();
    let mut out = vec![];
    for set in mccore::subsets_upto(cat.len(), k) {
        let mut c = base();
        for &i in &set {
            (cat[i].apply)(&mut c);
        }
        out.push((set.iter().map(|&i| cat[i].name.clone()).collect(), c));
    }
    out
}

pub const TOKENS: [&str; 8] = ["--a", "--b", "--c", "--d", "--o=x", "--o=y", "sub", "-b"];

/// Every sequence of distinct tokens of length <= n (every subset in every order).
pub fn argvs(n: usize) -> Vec<Vec<Vec<u8>>> {
    let mut out: Vec<Vec<Vec<u8>>> = vec![vec![]];
    let mut frontier: Vec<Vec<usize>> = vec![vec![]];
    for _ in 0..n {
        let mut next = vec![];
        for s in &frontier {
            for i in 0..TOKENS.len() {
                if !s.contains(&i) {
                    let mut t = s.clone();
                    t.push(i);
                    next.push(t);
                }
            }
        }
        for s in &next {
            out.push(s.iter().map(|i| TOKENS[*i].as_bytes().to_vec()).collect());
        }
        frontier = next;
    }
    out
}

// ---------------------------------------------------------------------------------------------
// nested family: prog(--a) -> sub(--x, --y) -> deep(--z); relations and negating settings at every
// level, so that a rule of one level can be seen leaking into (or missing from) another.

pub fn nested_base() -> CmdSpec {
    let mut c = CmdSpec::new("prog");
    c.args.push(ArgSpec::flag("a", None, Some("a")));
    let mut s = CmdSpec::new("sub");
    s.args.push(ArgSpec::flag("x", None, Some("x")));
    s.args.push(ArgSpec::flag("y", None, Some("y")));
    let mut d = CmdSpec::new("deep");
    d.args.push(ArgSpec::flag("z", None, Some("z")));
    s.subs.push(d);
    c.subs.push(s);
    c
}

fn sub_of(c: &mut CmdSpec) -> &mut CmdSpec {
    &mut c.subs[0]
}
fn deep_of(c: &mut CmdSpec) -> &mut CmdSpec {
    &mut c.subs[0].subs[0]
}

pub fn nested_catalogue() -> Vec<Edge> {
    let mut v: Vec<Edge> = vec![];
    let mut e = |name: &str, f: Box<dyn Fn(&mut CmdSpec) + Send + Sync>| v.push(Edge { name: name.to_string(), apply: f });
    e("prog.args_conflicts_with_subcommands", Box::new(|c| c.set(Setting::ArgsConflictsWithSubcommands)));
    e("prog.subcommand_negates_reqs", Box::new(|c| c.set(Setting::SubcommandNegatesReqs)));
    e("prog.a.required", Box::new(|c| c.arg_mut("a").unwrap().required = true));
    e("prog.subcommand_required", Box::new(|c| c.set(Setting::SubcommandRequired)));
    e("sub.x.required", Box::new(|c| sub_of(c).arg_mut("x").unwrap().required = true));
    e("sub.x.requires(y)", Box::new(|c| sub_of(c).arg_mut("x").unwrap().requires.push("y".into())));
    e("sub.y.conflicts_with(x)", Box::new(|c| sub_of(c).arg_mut("y").unwrap().conflicts.push("x".into())));
    e("sub.group{x,y}.required", Box::new(|c| {
        sub_of(c).groups.push(GroupSpec { id: "g".into(), args: vec!["x".into(), "y".into()], required: true, ..Default::default() });
    }));
    e("sub.x.required_unless_present(y)", Box::new(|c| sub_of(c).arg_mut("x").unwrap().required_unless.push("y".into())));
    e("sub.subcommand_negates_reqs", Box::new(|c| sub_of(c).set(Setting::SubcommandNegatesReqs)));
    e("sub.args_conflicts_with_subcommands", Box::new(|c| sub_of(c).set(Setting::ArgsConflictsWithSubcommands)));
    e("sub.y.exclusive", Box::new(|c| sub_of(c).arg_mut("y").unwrap().exclusive = true));
    e("deep.z.required", Box::new(|c| deep_of(c).arg_mut("z").unwrap().required = true));
    v
}

pub fn nested_graphs(k: usize) -> Vec<(Vec<String>, CmdSpec)> {
    let cat = nested_catalogue();
    let mut out = vec![];
    for set in mccore::subsets_upto(cat.len(), k) {
        let mut c = nested_base();
        for &i in &set {
            (cat[i].apply)(&mut c);
        }
        out.push((set.iter().map(|&i| cat[i].name.clone()).collect(), c));
    }
    out
}

pub const NESTED_TOKENS: [&str; 6] = ["--a", "sub", "--x", "--y", "deep", "--z"];

pub fn nested_argvs(n: usize) -> Vec<Vec<Vec<u8>>> {
    let mut out: Vec<Vec<Vec<u8>>> = vec![vec![]];
    let mut frontier: Vec<Vec<usize>> = vec![vec![]];
    for _ in 0..n {
        let mut next = vec![];
        for s in &frontier {
            for i in 0..NESTED_TOKENS.len() {
                if !s.contains(&i) {
                    let mut t = s.clone();
                    t.push(i);
                    next.push(t);
                }
            }
        }
        for s in &next {
            out.push(s.iter().map(|i| NESTED_TOKENS[*i].as_bytes().to_vec()).collect());
        }
        frontier = next;
    }
    out
}
