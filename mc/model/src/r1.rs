//! R1 — reader for the *documented* command-line grammar of the conventional class.
//!
//! Encodes `Arg::short/long/alias/num_args/value_delimiter/require_equals/last`,
//! `Command::subcommand/infer_long_args/infer_subcommands/args_override_self` and the `--`
//! convention as the documentation states them; shares no structure with parser.rs (no parse-state
//! enum, no pending buffer inside a matcher, no counters). Anything the documentation does not pin
//! yields `unspecified`, and such executions are excluded from comparison (counted in evidence).

use crate::obs::{Obs, Src};
use crate::spec::*;
use std::collections::BTreeSet;

#[derive(Clone, Copy, Debug, PartialEq, Eq, PartialOrd, Ord, Hash)]
pub enum Rule {
    /// a token names nothing that is defined (unknown flag/option, surplus positional, unknown subcommand)
    Unknown,
    /// a value count outside the declared range (missing value, too many, unexpected attached value)
    Count,
    /// require_equals without `=`
    NoEquals,
    /// a non-overriding Set/flag argument given twice
    Repeat,
    /// a value outside the parser's language (incl. invalid UTF-8 for string-typed args)
    Value,
    Help,
    Version,
    /// a `required(true)` argument of a level does not occur there
    Missing,
}

#[derive(Clone, Copy, Debug, PartialEq, Eq)]
pub enum How {
    Long,
    LongEq,
    Short,
    ShortAttached,
    Pos,
}

#[derive(Clone, Debug, PartialEq, Eq)]
pub struct Occ {
    pub id: String,
    /// values after delimiter splitting (what the matches should hold for this occurrence)
    pub values: Vec<Vec<u8>>,
    /// raw value tokens before splitting
    pub raw: Vec<Vec<u8>>,
    /// spelled key (alias or canonical), for rewrites
    pub key: String,
    pub how: How,
    /// index of the argv token that started the occurrence
    pub at: usize,
    /// true when the occurrence came after `--`
    pub trailing: bool,
}

#[derive(Clone, Debug, Default, PartialEq, Eq)]
pub struct Level {
    pub occs: Vec<Occ>,
    pub sub: Option<(String, Box<Level>)>,
    /// argv index of the token that named the subcommand
    pub sub_at: Option<usize>,
    pub escape_at: Option<usize>,
}

#[derive(Clone, Debug, Default)]
pub struct Reading {
    pub level: Level,
    pub broken: BTreeSet<Rule>,
    pub unspecified: Option<&'static str>,
}

impl Reading {
    pub fn accept(&self) -> bool {
        self.broken.is_empty() && self.unspecified.is_none()
    }
}

/// Settings clap documents as global are inherited by sub-levels.
#[derive(Clone, Copy, Debug, Default)]
pub struct Inherited {
    pub infer_long: bool,
    pub infer_sub: bool,
    pub override_self: bool,
    pub disable_help_flag: bool,
    pub disable_help_sub: bool,
    pub propagated_version: bool,
    pub dont_delimit_trailing: bool,
    pub precedence: bool,
}

fn inherit(c: &CmdSpec, up: Inherited) -> Inherited {
    Inherited {
        infer_long: up.infer_long || c.has(Setting::InferLongArgs),
        infer_sub: up.infer_sub || c.has(Setting::InferSubcommands),
        override_self: up.override_self || c.has(Setting::ArgsOverrideSelf),
        disable_help_flag: up.disable_help_flag || c.has(Setting::DisableHelpFlag),
        disable_help_sub: up.disable_help_sub || c.has(Setting::DisableHelpSubcommand),
        propagated_version: up.propagated_version || (c.has(Setting::PropagateVersion) && c.version.is_some()),
        dont_delimit_trailing: up.dont_delimit_trailing || c.has(Setting::DontDelimitTrailingValues),
        precedence: up.precedence || c.has(Setting::SubcommandPrecedenceOverArg),
    }
}

pub fn min_max(a: &ArgSpec) -> (usize, usize) {
    match a.act() {
        Act::Set | Act::Append => match a.num_args {
            Some((lo, hi)) => (lo, hi.unwrap_or(usize::MAX)),
            None => {
                if a.value_names.len() > 1 {
                    (a.value_names.len(), a.value_names.len())
                } else {
                    (1, 1)
                }
            }
        },
        _ => (0, 0),
    }
}

/// The action clap documents as the default: `Append` for a positional with unbounded values,
/// `Set` otherwise.
pub fn eff_act(a: &ArgSpec) -> Act {
    match a.action {
        Some(x) => x,
        None => {
            if a.is_positional() && a.num_args.map(|n| n.1.is_none()).unwrap_or(false) {
                Act::Append
            } else {
                Act::Set
            }
        }
    }
}

pub fn is_multi(a: &ArgSpec) -> bool {
    let (_, mx) = min_max(a);
    mx > 1 || eff_act(a) == Act::Append
}

pub fn number_shaped(t: &[u8]) -> bool {
    // documented shape: -digits[.digits][e digits]
    let Some(r) = t.strip_prefix(b"-") else { return false };
    let mut i = 0;
    let n = r.len();
    let mut digits = |i: &mut usize| {
        let st = *i;
        while *i < n && r[*i].is_ascii_digit() {
            *i += 1;
        }
        *i - st
    };
    if digits(&mut i) == 0 {
        return false;
    }
    if i < n && r[i] == b'.' {
        i += 1;
        digits(&mut i);
    }
    if i < n && (r[i] == b'e' || r[i] == b'E') {
        i += 1;
        if digits(&mut i) == 0 {
            return false;
        }
    }
    i == n
}

fn short_defined(c: &CmdSpec, globals: &[ArgSpec], t: &[u8]) -> bool {
    let Ok(s) = std::str::from_utf8(&t[1..]) else { return false };
    s.chars().any(|ch| c.args.iter().chain(globals.iter()).any(|a| a.short == Some(ch) || a.short_aliases.contains(&ch)))
}

enum Known {
    All,
    None_,
    Mixed,
}

/// Is a flag-shaped token made of defined flags/options (at this level) or not?
fn known_flag_token(c: &CmdSpec, inh: &Inherited, globals: &[ArgSpec], t: &[u8]) -> Known {
    if t.starts_with(b"--") {
        let body = &t[2..];
        let name_b = match body.iter().position(|b| *b == b'=') {
            Some(p) => &body[..p],
            None => body,
        };
        let Ok(name) = std::str::from_utf8(name_b) else { return Known::None_ };
        return match find_long(c, inh, name, globals) {
            Found::None => Known::None_,
            Found::Ambiguous => Known::Mixed,
            _ => Known::All,
        };
    }
    let tail = &t[1..];
    let Ok(s) = std::str::from_utf8(tail) else { return Known::Mixed };
    let mut known = 0;
    let mut unknown = 0;
    // Whether the tail after a value-taking short is "its attached value" or "more flags" is not
    // pinned by the documentation when a hyphen-accepting positional is next: every character
    // must be a defined short for the token to count as known.
    for ch in s.chars() {
        match find_short(c, inh, ch, globals) {
            Found::None => unknown += 1,
            _ => known += 1,
        }
    }
    match (known, unknown) {
        (_, 0) => Known::All,
        (0, _) => Known::None_,
        _ => {
            // A token that is not a valid cluster of defined flags can only be accepted as a
            // value; only `-o<rest>` with `o` value-taking is left open (attached value or value?).
            let first_takes_value = s
                .chars()
                .next()
                .map(|ch| matches!(find_short(c, inh, ch, globals), Found::Arg(a, _) if min_max(a).1 > 0))
                .unwrap_or(false);
            if first_takes_value {
                Known::Mixed
            } else {
                Known::None_
            }
        }
    }
}

fn flag_shaped(t: &[u8]) -> bool {
    t.len() > 1 && t[0] == b'-'
}

fn value_ok(a: &ArgSpec, v: &[u8]) -> bool {
    let s = std::str::from_utf8(v);
    match &a.parser {
        Vp::Os => true,
        Vp::Default | Vp::Str => s.is_ok(),
        Vp::NonEmpty => s.map(|x| !x.is_empty()).unwrap_or(false),
        Vp::PathBuf => !v.is_empty(),
        Vp::U8 | Vp::U8New => s.ok().and_then(|x| x.parse::<u8>().ok()).is_some(),
        Vp::I64 => s.ok().and_then(|x| x.parse::<i64>().ok()).is_some(),
        Vp::Bool => matches!(s, Ok("true") | Ok("false")),
        Vp::Boolish | Vp::Falsey => s.is_ok(),
        Vp::Enum => match s {
            Ok(x) => ["fast", "quick", "slow", "lazy"].iter().any(|n| if a.ignore_case { n.eq_ignore_ascii_case(x) } else { *n == x }),
            Err(_) => false,
        },
        Vp::Pv(pvs) => match s {
            Ok(x) => pvs.iter().any(|p| {
                let m = |n: &str| if a.ignore_case { n.eq_ignore_ascii_case(x) } else { n == x };
                m(&p.name) || p.aliases.iter().any(|al| m(al))
            }),
            Err(_) => false,
        },
    }
}

fn split_delim(a: &ArgSpec, raw: &[Vec<u8>], exempt_from: Option<usize>) -> Vec<Vec<u8>> {
    let Some(d) = a.delimiter else { return raw.to_vec() };
    let mut buf = [0u8; 4];
    let d = d.encode_utf8(&mut buf).as_bytes().to_vec();
    let mut out = vec![];
    for (i, r) in raw.iter().enumerate() {
        if exempt_from.map(|e| i >= e).unwrap_or(false) {
            out.push(r.clone());
            continue;
        }
        let mut rest: &[u8] = r;
        loop {
            match rest.windows(d.len()).position(|w| w == &d[..]) {
                Some(p) => {
                    out.push(rest[..p].to_vec());
                    rest = &rest[p + d.len()..];
                }
                None => {
                    out.push(rest.to_vec());
                    break;
                }
            }
        }
    }
    out
}

enum Found<'a> {
    Arg(&'a ArgSpec, String),
    Help,
    Version,
    /// long flag of a subcommand — outside the conventional class
    FlagSub,
    Ambiguous,
    None,
}

fn has_version(c: &CmdSpec, inh: &Inherited) -> bool {
    (c.version.is_some() || c.long_version.is_some() || inh.propagated_version) && !c.has(Setting::DisableVersionFlag)
}

fn find_long<'a>(c: &'a CmdSpec, inh: &Inherited, name: &str, globals: &'a [ArgSpec]) -> Found<'a> {
    let mut keys: Vec<(String, Option<&ArgSpec>, u8)> = vec![];
    for a in c.args.iter().chain(globals.iter()) {
        if let Some(l) = &a.long {
            keys.push((l.clone(), Some(a), 0));
        }
        for al in a.aliases.iter().chain(a.visible_aliases.iter()) {
            keys.push((al.clone(), Some(a), 0));
        }
    }
    let user_help = keys.iter().any(|k| k.0 == "help");
    let user_version = keys.iter().any(|k| k.0 == "version");
    if !inh.disable_help_flag && !user_help {
        keys.push(("help".into(), None, 1));
    }
    if has_version(c, inh) && !user_version {
        keys.push(("version".into(), None, 2));
    }
    for s in &c.subs {
        if let Some(l) = &s.long_flag {
            keys.push((l.clone(), None, 3));
        }
        for l in s.long_flag_aliases.iter().chain(s.visible_long_flag_aliases.iter()) {
            keys.push((l.clone(), None, 3));
        }
    }
    let pick = |k: &(String, Option<&'a ArgSpec>, u8)| match k.2 {
        0 => Found::Arg(k.1.unwrap(), k.0.clone()),
        1 => Found::Help,
        2 => Found::Version,
        _ => Found::FlagSub,
    };
    if let Some(k) = keys.iter().find(|k| k.0 == name) {
        return pick(k);
    }
    if inh.infer_long && !name.is_empty() {
        let cands: Vec<_> = keys.iter().filter(|k| k.0.starts_with(name)).collect();
        // several keys of the same argument (long + alias) are one candidate
        let mut distinct: Vec<&(String, Option<&ArgSpec>, u8)> = vec![];
        for c in cands {
            let same = distinct.iter().any(|d| d.2 == c.2 && d.1.map(|a| &a.id) == c.1.map(|a| &a.id));
            if !same {
                distinct.push(c);
            }
        }
        return match distinct.len() {
            0 => Found::None,
            1 => pick(distinct[0]),
            _ => Found::Ambiguous,
        };
    }
    Found::None
}

fn find_short<'a>(c: &'a CmdSpec, inh: &Inherited, ch: char, globals: &'a [ArgSpec]) -> Found<'a> {
    for a in c.args.iter().chain(globals.iter()) {
        if a.short == Some(ch) || a.short_aliases.contains(&ch) || a.visible_short_aliases.contains(&ch) {
            return Found::Arg(a, ch.to_string());
        }
    }
    for s in &c.subs {
        if s.short_flag == Some(ch) || s.short_flag_aliases.contains(&ch) || s.visible_short_flag_aliases.contains(&ch) {
            return Found::FlagSub;
        }
    }
    if ch == 'h' && !inh.disable_help_flag {
        return Found::Help;
    }
    if ch == 'V' && has_version(c, inh) {
        return Found::Version;
    }
    Found::None
}

enum SubFound<'a> {
    Sub(&'a CmdSpec),
    Help,
    Ambiguous,
    None,
}

fn find_sub<'a>(c: &'a CmdSpec, inh: &Inherited, name: &str) -> SubFound<'a> {
    let mut keys: Vec<(String, Option<&CmdSpec>)> = vec![];
    for s in &c.subs {
        keys.push((s.name.clone(), Some(s)));
        for al in s.aliases.iter().chain(s.visible_aliases.iter()) {
            keys.push((al.clone(), Some(s)));
        }
    }
    if !c.subs.is_empty() && !inh.disable_help_sub && !keys.iter().any(|k| k.0 == "help") {
        keys.push(("help".into(), None));
    }
    let pick = |k: &(String, Option<&'a CmdSpec>)| match k.1 {
        Some(s) => SubFound::Sub(s),
        None => SubFound::Help,
    };
    if let Some(k) = keys.iter().find(|k| k.0 == name) {
        return pick(k);
    }
    if inh.infer_sub && !name.is_empty() {
        let mut distinct: Vec<&(String, Option<&CmdSpec>)> = vec![];
        for k in keys.iter().filter(|k| k.0.starts_with(name)) {
            if !distinct.iter().any(|d| d.1.map(|s| &s.name) == k.1.map(|s| &s.name)) {
                distinct.push(k);
            }
        }
        return match distinct.len() {
            0 => SubFound::None,
            1 => pick(distinct[0]),
            _ => SubFound::Ambiguous,
        };
    }
    SubFound::None
}

pub fn read(c: &CmdSpec, argv: &[Vec<u8>]) -> Reading {
    let mut r = Reading::default();
    r.level = read_level(c, argv, 0, Inherited::default(), &[], &mut r.broken, &mut r.unspecified);
    r
}

struct Pending {
    occ: usize,
    min: usize,
    max: usize,
}

#[allow(clippy::too_many_arguments)]
fn read_level(
    c: &CmdSpec,
    argv: &[Vec<u8>],
    start: usize,
    up: Inherited,
    globals_in: &[ArgSpec],
    broken: &mut BTreeSet<Rule>,
    unspec: &mut Option<&'static str>,
) -> Level {
    let inh = inherit(c, up);
    let mut lv = Level::default();
    let globals: Vec<ArgSpec> = globals_in.to_vec();
    let mut positionals: Vec<&ArgSpec> = c.args.iter().filter(|a| a.is_positional()).collect();
    positionals.sort_by_key(|a| a.index.unwrap_or(usize::MAX));
    let has_last = positionals.iter().any(|a| a.last);
    let mut pos_i = 0usize; // next positional slot
    let mut pos_run: Option<usize> = None; // occurrence index of the multi positional still collecting
    let mut pending: Option<Pending> = None;
    let mut trailing = false;
    let mut i = start;

    macro_rules! close_pending {
        () => {
            if let Some(p) = pending.take() {
                let n = lv.occs[p.occ].raw.len();
                if n < p.min {
                    broken.insert(Rule::Count);
                }
            }
        };
    }

    while i < argv.len() {
        let t = &argv[i];
        if trailing {
            // everything is positional
            place_positional(c, &positionals, &mut pos_i, &mut pos_run, &mut lv, t, i, true, has_last, broken, unspec);
            i += 1;
            continue;
        }
        if let Some(p) = &pending {
            let n = lv.occs[p.occ].raw.len();
            let pa = c.args.iter().chain(globals.iter()).find(|a| a.id == lv.occs[p.occ].id);
            // value_terminator: the sentinel ends this argument's values and is itself consumed
            if pa.and_then(|a| a.terminator.as_ref()).map(|term| term.as_bytes() == t.as_slice()).unwrap_or(false) {
                close_pending!();
                i += 1;
                continue;
            }
            let hyphen_ok = pa.map(|a| a.allow_hyphen_values || (a.allow_negative_numbers && number_shaped(t))).unwrap_or(false);
            if hyphen_ok && n < p.max && (flag_shaped(t) || t == b"--") {
                // "prior arguments with allow_hyphen_values get precedence over known flags"
                lv.occs[p.occ].raw.push(t.clone());
                i += 1;
                continue;
            }
            if flag_shaped(t) && n < p.min {
                if let Some(np) = positionals.get(pos_i) {
                    if np.allow_hyphen_values || (np.allow_negative_numbers && number_shaped(t)) {
                        *unspec = Some("flag-shaped token after an option awaiting a value while the next positional accepts hyphen values");
                    }
                }
            }
            if !flag_shaped(t) && t != b"--" && n < p.max {
                // `sub`-named tokens: only with subcommand_precedence_over_arg does a subcommand win
                if inh.precedence {
                    if let Ok(s) = std::str::from_utf8(t) {
                        if !matches!(find_sub(c, &inh, s), SubFound::None) {
                            *unspec = Some("subcommand_precedence_over_arg with a pending option");
                        }
                    }
                }
                lv.occs[p.occ].raw.push(t.clone());
                i += 1;
                continue;
            }
            close_pending!();
        }
        if let Some(o) = pos_run {
            let pa = c.arg(&lv.occs[o].id);
            if let Some(pa) = pa {
                if pa.trailing_var_arg {
                    // once started, everything that follows belongs to it "as if `--` had been used"
                    lv.occs[o].raw.push(t.clone());
                    i += 1;
                    continue;
                }
                if (flag_shaped(t) || t == b"--") && (pa.allow_hyphen_values || (pa.allow_negative_numbers && number_shaped(t) && t != b"--")) {
                    if pa.allow_negative_numbers && !pa.allow_hyphen_values {
                        // a digit may also be a defined short flag: not pinned
                        if short_defined(c, &globals, t) {
                            *unspec = Some("negative-number-shaped token that is also a defined short flag");
                        }
                    }
                    lv.occs[o].raw.push(t.clone());
                    i += 1;
                    continue;
                }
            }
        }
        if t == b"--" {
            if positionals.len() == 2 && is_multi(positionals[0]) && !is_multi(positionals[1]) {
                *unspec = Some("low-index multiple positional combined with `--`");
            }
            if c.has(Setting::AllowMissingPositional) {
                *unspec = Some("allow_missing_positional combined with `--`");
            }
            trailing = true;
            pos_run = None;
            lv.escape_at = Some(i);
            i += 1;
            continue;
        }
        if flag_shaped(t) {
            if let Some(pa) = positionals.get(pos_i) {
                if !pa.last && (pa.allow_hyphen_values || (pa.allow_negative_numbers && number_shaped(t))) {
                    match known_flag_token(c, &inh, &globals, t) {
                        Known::All => {}
                        Known::None_ => {
                            place_positional(c, &positionals, &mut pos_i, &mut pos_run, &mut lv, t, i, false, has_last, broken, unspec);
                            i += 1;
                            continue;
                        }
                        Known::Mixed => *unspec = Some("short cluster mixing defined and undefined flags before a hyphen-accepting positional"),
                    }
                }
            }
        }
        if t.starts_with(b"--") {
            pos_run = None;
            let body = &t[2..];
            let (name_b, val) = match body.iter().position(|b| *b == b'=') {
                Some(p) => (&body[..p], Some(body[p + 1..].to_vec())),
                None => (body, None),
            };
            let Ok(name) = std::str::from_utf8(name_b) else {
                broken.insert(Rule::Unknown);
                i += 1;
                continue;
            };
            match find_long(c, &inh, name, &globals) {
                Found::None => {
                    broken.insert(Rule::Unknown);
                }
                Found::Ambiguous => {
                    broken.insert(Rule::Unknown);
                }
                Found::FlagSub => *unspec = Some("flag subcommand (outside the conventional class)"),
                Found::Help => {
                    if val.is_some() {
                        *unspec = Some("--help=value");
                    }
                    broken.insert(Rule::Help);
                }
                Found::Version => {
                    if val.is_some() {
                        *unspec = Some("--version=value");
                    }
                    broken.insert(Rule::Version);
                }
                Found::Arg(a, key) => {
                    let (mn, mx) = min_max(a);
                    if mx == 0 {
                        if val.is_some() {
                            broken.insert(Rule::Count);
                        }
                        lv.occs.push(Occ { id: a.id.clone(), values: vec![], raw: vec![], key, how: How::Long, at: i, trailing: false });
                    } else if let Some(v) = val {
                        lv.occs.push(Occ { id: a.id.clone(), values: vec![], raw: vec![v], key, how: How::LongEq, at: i, trailing: false });
                        if mx > 1 && argv.get(i + 1).map(|n| !flag_shaped(n) && n != b"--").unwrap_or(false) {
                            *unspec = Some("attached value followed by a plain token for a multi-value option");
                        }
                        if mn > 1 {
                            broken.insert(Rule::Count);
                        }
                    } else if a.require_equals {
                        if mn == 0 {
                            lv.occs.push(Occ { id: a.id.clone(), values: vec![], raw: vec![], key, how: How::Long, at: i, trailing: false });
                        } else {
                            broken.insert(Rule::NoEquals);
                        }
                    } else {
                        lv.occs.push(Occ { id: a.id.clone(), values: vec![], raw: vec![], key, how: How::Long, at: i, trailing: false });
                        pending = Some(Pending { occ: lv.occs.len() - 1, min: mn, max: mx });
                    }
                }
            }
            i += 1;
            continue;
        }
        if flag_shaped(t) {
            pos_run = None;
            // short cluster
            let tail = &t[1..];
            let vp = match std::str::from_utf8(tail) {
                Ok(_) => tail.len(),
                Err(e) => e.valid_up_to(),
            };
            let chars: Vec<(usize, char)> = std::str::from_utf8(&tail[..vp]).unwrap().char_indices().collect();
            let mut k = 0;
            let mut stopped = false;
            while k < chars.len() {
                let (off, ch) = chars[k];
                match find_short(c, &inh, ch, &globals) {
                    Found::None | Found::Ambiguous => {
                        broken.insert(Rule::Unknown);
                        stopped = true;
                        break;
                    }
                    Found::FlagSub => {
                        *unspec = Some("flag subcommand (outside the conventional class)");
                        stopped = true;
                        break;
                    }
                    Found::Help => {
                        broken.insert(Rule::Help);
                        stopped = true;
                        break;
                    }
                    Found::Version => {
                        broken.insert(Rule::Version);
                        stopped = true;
                        break;
                    }
                    Found::Arg(a, key) => {
                        let (mn, mx) = min_max(a);
                        if mx == 0 {
                            lv.occs.push(Occ { id: a.id.clone(), values: vec![], raw: vec![], key, how: How::Short, at: i, trailing: false });
                            k += 1;
                            continue;
                        }
                        let rest = &tail[off + ch.len_utf8()..];
                        if rest.is_empty() {
                            if a.require_equals {
                                if mn == 0 {
                                    lv.occs.push(Occ { id: a.id.clone(), values: vec![], raw: vec![], key, how: How::Short, at: i, trailing: false });
                                } else {
                                    broken.insert(Rule::NoEquals);
                                }
                            } else {
                                lv.occs.push(Occ { id: a.id.clone(), values: vec![], raw: vec![], key, how: How::Short, at: i, trailing: false });
                                pending = Some(Pending { occ: lv.occs.len() - 1, min: mn, max: mx });
                            }
                        } else {
                            let (v, had_eq) = match rest.strip_prefix(b"=") {
                                Some(x) => (x, true),
                                None => (rest, false),
                            };
                            if had_eq && v.is_empty() {
                                *unspec = Some("-o= with an empty remainder");
                            }
                            if a.require_equals && !had_eq {
                                *unspec = Some("attached short value without = under require_equals");
                            }
                            lv.occs.push(Occ { id: a.id.clone(), values: vec![], raw: vec![v.to_vec()], key, how: How::ShortAttached, at: i, trailing: false });
                            if mx > 1 && argv.get(i + 1).map(|n| !flag_shaped(n) && n != b"--").unwrap_or(false) {
                                *unspec = Some("attached value followed by a plain token for a multi-value option");
                            }
                            if mn > 1 {
                                broken.insert(Rule::Count);
                            }
                        }
                        stopped = true;
                        break;
                    }
                }
            }
            if !stopped && vp < tail.len() {
                // invalid UTF-8 remainder after known flags names nothing
                broken.insert(Rule::Unknown);
            }
            i += 1;
            continue;
        }
        // plain token
        if pos_run.is_none() || inh.precedence {
            if let Ok(s) = std::str::from_utf8(t) {
                match find_sub(c, &inh, s) {
                    SubFound::Sub(sc) => {
                        close_pending!();
                        let mut g = globals.clone();
                        for a in &c.args {
                            if a.global {
                                g.push(a.clone());
                            }
                        }
                        let sub = read_level(sc, argv, i + 1, inh, &g, broken, unspec);
                        lv.sub = Some((sc.name.clone(), Box::new(sub)));
                        lv.sub_at = Some(i);
                        finish_level(c, &inh, &mut lv, broken);
                        return lv;
                    }
                    SubFound::Help => {
                        broken.insert(Rule::Help);
                        // the words after `help` name a path of subcommands; a word that names none
                        // at its level is an unknown subcommand rather than a request for help
                        let mut at = c;
                        for (wi, w) in argv[i + 1..].iter().enumerate() {
                            if w == b"--" {
                                break;
                            }
                            if w == b"help" && !at.subs.iter().any(|sc| sc.name == "help") {
                                // the generated `help` exists where there are subcommands, and has
                                // nothing below it
                                if at.subs.is_empty() || argv.get(i + 2 + wi).map(|n| n != b"--").unwrap_or(false) {
                                    broken.insert(Rule::Unknown);
                                }
                                break;
                            }
                            let next = std::str::from_utf8(w).ok().and_then(|n| at.subs.iter().find(|sc| sc.name == n || sc.aliases.iter().chain(sc.visible_aliases.iter()).any(|al| al == n)));
                            match next {
                                Some(sc) => at = sc,
                                None => {
                                    broken.insert(Rule::Unknown);
                                    break;
                                }
                            }
                        }
                        // the help subcommand consumes the rest of the line
                        finish_level(c, &inh, &mut lv, broken);
                        return lv;
                    }
                    SubFound::Ambiguous => {
                        if positionals.is_empty() {
                            broken.insert(Rule::Unknown);
                            i += 1;
                            continue;
                        }
                        // an ambiguous prefix is not a subcommand; falls through to positionals
                    }
                    SubFound::None => {}
                }
            }
        }
        if positionals.len() == 2 && is_multi(positionals[0]) && !is_multi(positionals[1]) && positionals[1].required {
            // "low index multiple": `<files>... <target>` — the multi-value positional takes every
            // value of the run but the last, which is the required final positional
            if lv.occs.iter().any(|o| o.how == How::Pos) {
                *unspec = Some("low-index multiple positional with more than one run of values");
            }
            let mut n = 0;
            while i + n < argv.len() {
                let t2 = &argv[i + n];
                let is_sub = std::str::from_utf8(t2).map(|s| !matches!(find_sub(c, &inh, s), SubFound::None)).unwrap_or(false);
                if flag_shaped(t2) || t2 == b"--" || is_sub {
                    break;
                }
                n += 1;
            }
            if n < 2 {
                *unspec = Some("low-index multiple positional with a single value");
                n = n.max(1);
            }
            for k in 0..n {
                let target = if k + 1 == n && n >= 2 { 1 } else { 0 };
                let a = positionals[target];
                if target == 0 && k > 0 {
                    let o = lv.occs.len() - 1;
                    lv.occs[o].raw.push(argv[i + k].clone());
                } else {
                    lv.occs.push(Occ { id: a.id.clone(), values: vec![], raw: vec![argv[i + k].clone()], key: a.id.clone(), how: How::Pos, at: i + k, trailing: false });
                }
            }
            pos_i = 2;
            i += n;
            continue;
        }
        if c.has(Setting::AllowMissingPositional) && positionals.len() == 2 && pos_i == 0 && !is_multi(positionals[0]) && !is_multi(positionals[1]) {
            // documented: `prog [optional] <required>` may be called as `prog <required>`: a single
            // positional value goes to the last positional. Only contiguous values are pinned.
            let next_plain = argv.get(i + 1).map(|n| {
                !flag_shaped(n) && n != b"--" && !std::str::from_utf8(n).map(|s| !matches!(find_sub(c, &inh, s), SubFound::None)).unwrap_or(false)
            });
            match next_plain {
                Some(true) => {}
                _ => {
                    if lv.occs.iter().any(|o| o.how == How::Pos) {
                        *unspec = Some("allow_missing_positional with non-contiguous positional values");
                    }
                    pos_i = 1;
                }
            }
        } else if c.has(Setting::AllowMissingPositional) && lv.occs.iter().any(|o| o.how == How::Pos && o.at + 1 != i) {
            *unspec = Some("allow_missing_positional with non-contiguous positional values");
        }
        place_positional(c, &positionals, &mut pos_i, &mut pos_run, &mut lv, t, i, false, has_last, broken, unspec);
        i += 1;
    }
    close_pending!();
    finish_level(c, &inh, &mut lv, broken);
    lv
}

#[allow(clippy::too_many_arguments)]
fn place_positional(
    c: &CmdSpec,
    positionals: &[&ArgSpec],
    pos_i: &mut usize,
    pos_run: &mut Option<usize>,
    lv: &mut Level,
    t: &[u8],
    at: usize,
    trailing: bool,
    has_last: bool,
    broken: &mut BTreeSet<Rule>,
    unspec: &mut Option<&'static str>,
) {
    if trailing && has_last {
        // after `--` values go to the `last` positional
        *pos_i = positionals.len() - 1;
    }
    let Some(a) = positionals.get(*pos_i) else {
        if c.external.is_some() && !trailing {
            *unspec = Some("external subcommand");
        } else if !c.subs.is_empty() && !trailing {
            broken.insert(Rule::Unknown);
        } else {
            broken.insert(Rule::Unknown);
        }
        return;
    };
    if a.last && !trailing {
        broken.insert(Rule::Unknown);
        return;
    }
    if a.terminator.as_ref().map(|term| term.as_bytes() == t).unwrap_or(false) {
        // value_terminator: the sentinel ends the multi-value positional (and is consumed); later
        // values go to the next positional. Before any value, or after `--`, nothing is documented.
        if trailing || !lv.occs.iter().any(|o| o.id == a.id) {
            *unspec = Some("value terminator before the positional's first value or after `--`");
        }
        *pos_i += 1;
        *pos_run = None;
        return;
    }
    if is_multi(a) {
        // contiguous values form one occurrence; an interrupted run starts another
        match pos_run {
            Some(o) if lv.occs[*o].id == a.id => lv.occs[*o].raw.push(t.to_vec()),
            _ => {
                lv.occs.push(Occ { id: a.id.clone(), values: vec![], raw: vec![t.to_vec()], key: a.id.clone(), how: How::Pos, at, trailing });
                *pos_run = Some(lv.occs.len() - 1);
            }
        }
    } else {
        lv.occs.push(Occ { id: a.id.clone(), values: vec![], raw: vec![t.to_vec()], key: a.id.clone(), how: How::Pos, at, trailing });
        *pos_i += 1;
        *pos_run = None;
    }
}

fn all_args<'a>(c: &'a CmdSpec) -> impl Iterator<Item = &'a ArgSpec> {
    c.args.iter()
}

fn finish_level(c: &CmdSpec, inh: &Inherited, lv: &mut Level, broken: &mut BTreeSet<Rule>) {
    for a in &c.args {
        if a.required && !lv.occs.iter().any(|o| o.id == a.id) && !(c.has(Setting::SubcommandNegatesReqs) && lv.sub.is_some()) {
            broken.insert(Rule::Missing);
        }
    }
    // value counts, delimiter splitting, value language, repeats
    let mut seen: Vec<String> = vec![];
    for o in lv.occs.iter_mut() {
        let Some(a) = all_args(c).find(|a| a.id == o.id) else {
            // a propagated global: validated against its own definition by the caller's view;
            // treat as a single-value string option/flag
            o.values = o.raw.clone();
            continue;
        };
        let (mn, mx) = min_max(a);
        if mx > 0 {
            let n = o.raw.len();
            if n > mx || n < mn {
                broken.insert(Rule::Count);
            }
            if n == 0 && !a.default_missing.is_empty() {
                o.values = a.default_missing.iter().map(|s| s.as_bytes().to_vec()).collect();
            } else {
                let exempt = if inh.dont_delimit_trailing && o.trailing { Some(0) } else { None };
                o.values = split_delim(a, &o.raw, exempt);
            }
            for v in &o.values {
                if !value_ok(a, v) {
                    broken.insert(Rule::Value);
                }
            }
        }
        let overriding = inh.override_self || a.overrides.contains(&a.id);
        let repeats_conflict = match eff_act(a) {
            Act::Set => true,
            Act::SetTrue | Act::SetFalse => true,
            _ => false,
        };
        if seen.contains(&o.id) && repeats_conflict && !overriding {
            broken.insert(Rule::Repeat);
        }
        seen.push(o.id.clone());
    }
}

// ------------------------------------------------------------------------------------------------
// Expected observation derived from an accepted reading

#[derive(Clone, Debug, PartialEq, Eq)]
pub struct Expect {
    /// id -> occurrences that must be reported (grouped), None = compare nothing for this id
    pub occs: Vec<(String, Vec<Vec<Vec<u8>>>, bool /* compare grouping */)>,
    /// ids that must have no command-line source
    pub absent: Vec<String>,
    /// surviving (id, value-or-marker) sequence in argv order
    pub order: Vec<(String, Option<Vec<u8>>)>,
}

fn survivors<'a>(c: &CmdSpec, inh: &Inherited, lv: &'a Level) -> Vec<&'a Occ> {
    let mut out: Vec<&Occ> = vec![];
    for (i, o) in lv.occs.iter().enumerate() {
        let a = c.arg(&o.id);
        let append = a.map(|a| eff_act(a) == Act::Append).unwrap_or(false);
        let later = lv.occs[i + 1..].iter().any(|p| p.id == o.id);
        let _ = inh;
        if append || !later {
            out.push(o);
        }
    }
    out
}

/// Compare an accepted reading with the observation of a successful parse. Returns differences.
pub fn compare(c: &CmdSpec, lv: &Level, ob: &Obs) -> Vec<(String, String)> {
    compare_level(c, lv, ob, Inherited::default(), &[])
}

fn compare_level(c: &CmdSpec, lv: &Level, ob: &Obs, up: Inherited, globals: &[ArgSpec]) -> Vec<(String, String)> {
    let inh = inherit(c, up);
    let mut bad = vec![];
    let surv = survivors(c, &inh, lv);
    let mut all: Vec<&ArgSpec> = c.args.iter().collect();
    all.extend(globals.iter());
    for a in &all {
        let Some(o) = ob.args.get(&a.id) else { continue };
        let mine: Vec<&&Occ> = surv.iter().filter(|s| s.id == a.id).collect();
        let is_local = c.arg(&a.id).is_some();
        if mine.is_empty() {
            // a global may legitimately carry a value supplied at another level
            if o.source == Some(Src::Cli) && is_local && !a.global {
                bad.push((
                    "value attributed to an argument that does not occur on the line".to_string(),
                    format!("{} reports {:?}", a.id, o.occ.iter().map(|g| g.iter().map(|v| mccore::show(v)).collect::<Vec<_>>()).collect::<Vec<_>>()),
                ));
            }
            continue;
        }
        if o.source != Some(Src::Cli) {
            bad.push(("argument given on the line is not reported with command-line source".into(), format!("{} source {:?}", a.id, o.source)));
            continue;
        }
        let (_, mx) = min_max(a);
        if mx == 0 {
            // flags: raw value is the action's business (C07); presence + source checked above
            continue;
        }
        let want: Vec<Vec<Vec<u8>>> = mine.iter().map(|s| s.values.clone()).collect();
        if a.is_positional() {
            // what counts as one "occurrence" of a positional is not documented: compare flat
            let w: Vec<Vec<u8>> = want.into_iter().flatten().collect();
            if o.flat() != w {
                bad.push((
                    "positional values differ from the argv substrings".into(),
                    format!("{}: got {:?} want {:?}", a.id, o.flat().iter().map(|v| mccore::show(v)).collect::<Vec<_>>(), w.iter().map(|v| mccore::show(v)).collect::<Vec<_>>()),
                ));
            }
        } else if o.occ != want {
            let cause = if o.flat() == want.iter().flatten().cloned().collect::<Vec<_>>() {
                "option values grouped differently from their occurrences"
            } else {
                "option values differ from the argv substrings"
            };
            bad.push((
                cause.into(),
                format!(
                    "{}: got {:?} want {:?}",
                    a.id,
                    o.occ.iter().map(|g| g.iter().map(|v| mccore::show(v)).collect::<Vec<_>>()).collect::<Vec<_>>(),
                    want.iter().map(|g| g.iter().map(|v| mccore::show(v)).collect::<Vec<_>>()).collect::<Vec<_>>()
                ),
            ));
        }
    }
    // index discipline: distinct, and sorted by index the values come in argv order
    let mut by_index: Vec<(usize, String, Option<Vec<u8>>)> = vec![];
    for a in &all {
        let Some(o) = ob.args.get(&a.id) else { continue };
        if o.source != Some(Src::Cli) || !surv.iter().any(|s| s.id == a.id) {
            continue;
        }
        let (_, mx) = min_max(a);
        let flat = o.flat();
        for (k, ix) in o.indices.iter().enumerate() {
            by_index.push((*ix, a.id.clone(), if mx == 0 { None } else { flat.get(k).cloned() }));
        }
    }
    by_index.sort();
    for w in by_index.windows(2) {
        if w[0].0 == w[1].0 {
            bad.push(("two values report the same index".into(), format!("index {} for {} and {}", w[0].0, w[0].1, w[1].1)));
        }
    }
    let mut want_seq: Vec<(String, Option<Vec<u8>>)> = vec![];
    for s in &surv {
        let a = all.iter().find(|a| a.id == s.id);
        let (_, mx) = a.map(|a| min_max(a)).unwrap_or((0, 0));
        if !ob.args.contains_key(&s.id) {
            continue;
        }
        if mx == 0 {
            want_seq.push((s.id.clone(), None));
        } else {
            for v in &s.values {
                want_seq.push((s.id.clone(), Some(v.clone())));
            }
        }
    }
    let got_seq: Vec<(String, Option<Vec<u8>>)> = by_index.iter().map(|x| (x.1.clone(), x.2.clone())).collect();
    // options present with zero values (default_missing) report indices for the injected values: same count
    if got_seq != want_seq && bad.is_empty() {
        bad.push((
            "values ordered by reported index do not reproduce argv order".into(),
            format!(
                "got {:?} want {:?}",
                got_seq.iter().map(|(i, v)| format!("{}={}", i, v.as_deref().map(mccore::show).unwrap_or_default())).collect::<Vec<_>>(),
                want_seq.iter().map(|(i, v)| format!("{}={}", i, v.as_deref().map(mccore::show).unwrap_or_default())).collect::<Vec<_>>()
            ),
        ));
    }
    // subcommand
    match (&lv.sub, &ob.sub) {
        (None, None) => {}
        (Some((n, sl)), Some((on, so))) => {
            if n != on {
                bad.push(("a different subcommand was dispatched".into(), format!("got {} want {}", on, n)));
            } else if let Some(sc) = c.sub(n) {
                let mut g = globals.to_vec();
                for a in &c.args {
                    if a.global {
                        g.push(a.clone());
                    }
                }
                bad.extend(compare_level(sc, sl, so, inh, &g));
            }
        }
        (None, Some((on, _))) => bad.push(("a subcommand was dispatched that the line does not name".into(), on.clone())),
        (Some((n, _)), None) => bad.push(("the named subcommand was not dispatched".into(), n.clone())),
    }
    bad
}

/// Which argument of the root level a long name resolves to under the root's own settings
/// (exact match first, unique prefix under infer_long_args). For C08's rewrites.
pub fn resolve_long_root(c: &CmdSpec, name: &str) -> Option<String> {
    let inh = inherit(c, Inherited::default());
    match find_long(c, &inh, name, &[]) {
        Found::Arg(a, _) => Some(a.id.clone()),
        _ => None,
    }
}

/// Number of distinct things (arguments, help/version, flag subcommands) a long prefix could mean.
pub fn long_candidates_root(c: &CmdSpec, prefix: &str) -> usize {
    let inh = inherit(c, Inherited::default());
    let mut ids: Vec<String> = vec![];
    for a in &c.args {
        let mut keys: Vec<&String> = a.long.iter().collect();
        keys.extend(a.aliases.iter());
        keys.extend(a.visible_aliases.iter());
        if keys.iter().any(|k| k.starts_with(prefix)) && !ids.contains(&a.id) {
            ids.push(a.id.clone());
        }
    }
    if !inh.disable_help_flag && "help".starts_with(prefix) && !c.args.iter().any(|a| a.long.as_deref() == Some("help")) {
        ids.push("<help>".into());
    }
    if has_version(c, &inh) && "version".starts_with(prefix) {
        ids.push("<version>".into());
    }
    ids.len()
}
