//! Unwind capture with a silent hook that records message and location.

use std::cell::RefCell;
use std::panic::{self, AssertUnwindSafe};
use std::sync::Once;

#[derive(Clone, Debug, PartialEq, Eq)]
pub struct PanicInfo {
    pub msg: String,
    pub file: String,
    pub line: u32,
}

impl PanicInfo {
    /// Stable key for known-finding matching: file (repo-relative) + message head, no line number.
    pub fn key(&self) -> String {
        let f = self.file.strip_prefix("/repo/").unwrap_or(&self.file);
        let mut m = self.msg.clone();
        // strip volatile numbers so that the same slip at a different size maps to one cause
        m = m
            .chars()
            .map(|c| if c.is_ascii_digit() { '#' } else { c })
            .collect();
        while m.contains("##") {
            m = m.replace("##", "#");
        }
        if m.len() > 90 {
            let mut e = 90;
            while !m.is_char_boundary(e) {
                e -= 1;
            }
            m.truncate(e);
        }
        format!("panic {}: {}", f, m)
    }
    pub fn show(&self) -> String {
        format!("{} at {}:{}", self.msg, self.file, self.line)
    }
}

thread_local! {
    static LAST: RefCell<Option<PanicInfo>> = const { RefCell::new(None) };
}

static HOOK: Once = Once::new();

pub fn install_silent_hook() {
    HOOK.call_once(|| {
        panic::set_hook(Box::new(|info| {
            let msg = if let Some(s) = info.payload().downcast_ref::<&str>() {
                s.to_string()
            } else if let Some(s) = info.payload().downcast_ref::<String>() {
                s.clone()
            } else {
                "<non-string panic payload>".to_string()
            };
            let (file, line) = info
                .location()
                .map(|l| (l.file().to_string(), l.line()))
                .unwrap_or_default();
            LAST.with(|l| *l.borrow_mut() = Some(PanicInfo { msg, file, line }));
        }));
    });
}

/// Run `f`, turning an unwind into `Err(PanicInfo)`.
pub fn catch<T>(f: impl FnOnce() -> T) -> Result<T, PanicInfo> {
    install_silent_hook();
    LAST.with(|l| *l.borrow_mut() = None);
    match panic::catch_unwind(AssertUnwindSafe(f)) {
        Ok(v) => Ok(v),
        Err(_) => Err(LAST.with(|l| l.borrow_mut().take()).unwrap_or(PanicInfo {
            msg: "<panic without hook record>".into(),
            file: String::new(),
            line: 0,
        })),
    }
}
