//! Explorer core: panic capture, parallel block enumeration, explicit-state BFS, violation
//! bookkeeping (known findings, replay files) and evidence writing.
//!
//! Nothing in here knows about clap. Every check binary links this and decides its property by
//! exhaustive enumeration; this crate only supplies the plumbing.

pub mod bfs;
pub mod panics;
pub mod par;
pub mod report;
pub mod sup;

pub use bfs::{Bfs, BfsStats};
pub use panics::{catch, install_silent_hook, PanicInfo};
pub use par::{par_blocks, threads};
pub use report::{Cli, Hist, Mode, Report, Tier, Violation};

use serde_json::Value;

/// Hex rendering of bytes used in replay files (argv tokens may be non-UTF-8).
pub fn hex(b: &[u8]) -> String {
    let mut s = String::with_capacity(b.len() * 2);
    for x in b {
        s.push_str(&format!("{:02x}", x));
    }
    s
}

pub fn unhex(s: &str) -> Vec<u8> {
    (0..s.len() / 2)
        .map(|i| u8::from_str_radix(&s[2 * i..2 * i + 2], 16).unwrap())
        .collect()
}

/// Lossy, human-readable rendering of a byte token for messages and samples.
pub fn show(b: &[u8]) -> String {
    match std::str::from_utf8(b) {
        Ok(s) if !s.chars().any(|c| c.is_control()) => s.to_string(),
        _ => {
            let mut s = String::new();
            for &x in b {
                if (0x20..0x7f).contains(&x) && x != b'\\' {
                    s.push(x as char);
                } else {
                    s.push_str(&format!("\\x{:02x}", x));
                }
            }
            s
        }
    }
}

pub fn show_argv(argv: &[Vec<u8>]) -> Value {
    Value::Array(argv.iter().map(|a| Value::String(show(a))).collect())
}

pub fn hex_argv(argv: &[Vec<u8>]) -> Value {
    Value::Array(argv.iter().map(|a| Value::String(hex(a))).collect())
}

pub fn unhex_argv(v: &Value) -> Vec<Vec<u8>> {
    v.as_array()
        .map(|a| a.iter().map(|x| unhex(x.as_str().unwrap_or(""))).collect())
        .unwrap_or_default()
}

pub fn os(b: &[u8]) -> std::ffi::OsString {
    use std::os::unix::ffi::OsStringExt;
    std::ffi::OsString::from_vec(b.to_vec())
}

pub fn os_bytes(s: &std::ffi::OsStr) -> Vec<u8> {
    use std::os::unix::ffi::OsStrExt;
    s.as_bytes().to_vec()
}

/// Enumerate all sequences over `0..radix` of length `0..=max_len`, length-lexicographic
/// (breadth-first over the prefix tree). Calls `f(seq)` for each; total = sum radix^k.
pub fn for_each_seq(radix: usize, max_len: usize, mut f: impl FnMut(&[usize])) {
    let mut seq: Vec<usize> = Vec::new();
    for len in 0..=max_len {
        seq.clear();
        seq.resize(len, 0);
        loop {
            f(&seq);
            // increment odometer (last position fastest)
            let mut i = len;
            loop {
                if i == 0 {
                    break;
                }
                i -= 1;
                seq[i] += 1;
                if seq[i] < radix {
                    break;
                }
                seq[i] = 0;
                if i == 0 {
                    i = usize::MAX;
                    break;
                }
            }
            if len == 0 || i == usize::MAX {
                break;
            }
        }
    }
}

/// Number of sequences enumerated by `for_each_seq`.
pub fn seq_count(radix: usize, max_len: usize) -> u64 {
    let mut t = 0u64;
    let mut p = 1u64;
    for _ in 0..=max_len {
        t += p;
        p = p.saturating_mul(radix as u64);
    }
    t
}

/// All subsets of `0..n` with at most `k` elements, by ascending size then lexicographic.
pub fn subsets_upto(n: usize, k: usize) -> Vec<Vec<usize>> {
    let mut out = vec![vec![]];
    let mut frontier: Vec<Vec<usize>> = vec![vec![]];
    for _ in 0..k {
        let mut next = Vec::new();
        for s in &frontier {
            let start = s.last().map(|x| x + 1).unwrap_or(0);
            for i in start..n {
                let mut t = s.clone();
                t.push(i);
                next.push(t);
            }
        }
        out.extend(next.iter().cloned());
        frontier = next;
    }
    out
}

/// All permutations of a small vector (in lexicographic order of positions).
pub fn permutations<T: Clone>(items: &[T]) -> Vec<Vec<T>> {
    fn rec<T: Clone>(items: &[T], used: &mut Vec<bool>, cur: &mut Vec<T>, out: &mut Vec<Vec<T>>) {
        if cur.len() == items.len() {
            out.push(cur.clone());
            return;
        }
        for i in 0..items.len() {
            if !used[i] {
                used[i] = true;
                cur.push(items[i].clone());
                rec(items, used, cur, out);
                cur.pop();
                used[i] = false;
            }
        }
    }
    let mut out = Vec::new();
    rec(items, &mut vec![false; items.len()], &mut Vec::new(), &mut out);
    out
}

#[cfg(test)]
mod tests {
    use super::*;
    #[test]
    fn seqs() {
        let mut n = 0;
        let mut last = vec![];
        for_each_seq(3, 3, |s| {
            n += 1;
            last = s.to_vec();
        });
        assert_eq!(n, 1 + 3 + 9 + 27);
        assert_eq!(n as u64, seq_count(3, 3));
        assert_eq!(last, vec![2, 2, 2]);
        assert_eq!(subsets_upto(4, 2).len(), 1 + 4 + 6);
        assert_eq!(permutations(&[1, 2, 3]).len(), 6);
    }
}
