//! Verdicts, evidence, replay files and known findings.
//!
//! Exit codes: 0 = property held on everything explored (known findings are printed and do not
//! count); 1 = at least one violation not listed in known_findings.json (one `VIOLATION` line each,
//! with a replay file); 2 = machinery failure (never a verdict).

use serde_json::{json, Map, Value};
use std::collections::BTreeMap;
use std::path::PathBuf;
use std::sync::atomic::{AtomicBool, AtomicU64, Ordering};
use std::sync::Mutex;
use std::time::Instant;

#[derive(Clone, Copy, PartialEq, Eq, Debug)]
pub enum Tier {
    Quick,
    Thorough,
}

impl Tier {
    pub fn name(self) -> &'static str {
        match self {
            Tier::Quick => "quick",
            Tier::Thorough => "thorough",
        }
    }
    pub fn pick<T>(self, q: T, t: T) -> T {
        match self {
            Tier::Quick => q,
            Tier::Thorough => t,
        }
    }
}

#[derive(Clone, Debug)]
pub enum Mode {
    Explore(Tier),
    Replay(PathBuf),
}

#[derive(Clone, Debug)]
pub struct Cli {
    pub mode: Mode,
    pub seed: i64,
    /// extra free-form arguments after the mode (used by supervisors: `--case`, `--block`)
    pub rest: Vec<String>,
}

impl Cli {
    pub fn parse() -> Cli {
        let args: Vec<String> = std::env::args().skip(1).collect();
        let seed = std::env::var("VERIF_SEED")
            .ok()
            .and_then(|s| s.parse().ok())
            .unwrap_or(0);
        let mut mode = None;
        let mut rest = Vec::new();
        let mut i = 0;
        while i < args.len() {
            match args[i].as_str() {
                "quick" if mode.is_none() => mode = Some(Mode::Explore(Tier::Quick)),
                "thorough" if mode.is_none() => mode = Some(Mode::Explore(Tier::Thorough)),
                "--replay" if mode.is_none() => {
                    i += 1;
                    let p = args.get(i).cloned().unwrap_or_else(|| {
                        eprintln!("--replay needs a file");
                        std::process::exit(2)
                    });
                    mode = Some(Mode::Replay(PathBuf::from(p)));
                }
                other => rest.push(other.to_string()),
            }
            i += 1;
        }
        let mode = mode.unwrap_or_else(|| {
            match std::env::var("VERIF_TIER").ok().as_deref() {
                Some("thorough") => Mode::Explore(Tier::Thorough),
                _ => Mode::Explore(Tier::Quick),
            }
        });
        Cli { mode, seed, rest }
    }
}

pub fn verif_root() -> PathBuf {
    std::env::var("VERIF_ROOT")
        .map(PathBuf::from)
        .unwrap_or_else(|_| PathBuf::from("/verif"))
}

#[derive(Clone, Debug)]
pub struct Violation {
    /// Narrow, deterministic description of the failing class *by cause* — the key that
    /// known_findings.json entries are matched against.
    pub cause: String,
    /// Position in enumeration order (smaller = simpler); the smallest witness per cause is kept.
    pub order: (u64, u64),
    /// One-line human description: expected vs observed.
    pub what: String,
    /// Self-contained case for `--replay`.
    pub case: Value,
}

/// Per-thread/per-block histogram + counters, merged into the report without contention.
#[derive(Default, Clone)]
pub struct Hist {
    pub evaluations: u64,
    pub nontrivial: u64,
    pub states: u64,
    pub transitions: u64,
    pub validated: u64,
    pub classes: BTreeMap<String, u64>,
}

impl Hist {
    pub fn new() -> Self {
        Self::default()
    }
    pub fn bump(&mut self, class: &str) {
        if let Some(v) = self.classes.get_mut(class) {
            *v += 1;
        } else {
            self.classes.insert(class.to_string(), 1);
        }
    }
    pub fn add(&mut self, class: &str, n: u64) {
        *self.classes.entry(class.to_string()).or_insert(0) += n;
    }
}

pub struct Report {
    pub prop: String,
    pub tier: Tier,
    pub seed: i64,
    start: Instant,
    evaluations: AtomicU64,
    nontrivial: AtomicU64,
    states: AtomicU64,
    transitions: AtomicU64,
    validated: AtomicU64,
    hist: Mutex<BTreeMap<String, u64>>,
    violations: Mutex<BTreeMap<String, (Violation, u64)>>,
    samples: Mutex<Vec<Value>>,
    extra: Mutex<Map<String, Value>>,
    assumptions: Mutex<Vec<String>>,
    rule: Mutex<String>,
    exhaustive: AtomicBool,
    caps: Mutex<Vec<String>>,
}

impl Report {
    pub fn new(prop: &str, tier: Tier, seed: i64) -> Report {
        Report {
            prop: prop.to_string(),
            tier,
            seed,
            start: Instant::now(),
            evaluations: AtomicU64::new(0),
            nontrivial: AtomicU64::new(0),
            states: AtomicU64::new(0),
            transitions: AtomicU64::new(0),
            validated: AtomicU64::new(0),
            hist: Mutex::new(BTreeMap::new()),
            violations: Mutex::new(BTreeMap::new()),
            samples: Mutex::new(Vec::new()),
            extra: Mutex::new(Map::new()),
            assumptions: Mutex::new(Vec::new()),
            rule: Mutex::new(String::new()),
            exhaustive: AtomicBool::new(true),
            caps: Mutex::new(Vec::new()),
        }
    }

    pub fn elapsed(&self) -> f64 {
        self.start.elapsed().as_secs_f64()
    }

    pub fn merge(&self, h: &Hist) {
        self.evaluations.fetch_add(h.evaluations, Ordering::Relaxed);
        self.nontrivial.fetch_add(h.nontrivial, Ordering::Relaxed);
        self.states.fetch_add(h.states, Ordering::Relaxed);
        self.transitions.fetch_add(h.transitions, Ordering::Relaxed);
        self.validated.fetch_add(h.validated, Ordering::Relaxed);
        if !h.classes.is_empty() {
            let mut g = self.hist.lock().unwrap();
            for (k, v) in &h.classes {
                *g.entry(k.clone()).or_insert(0) += *v;
            }
        }
    }

    pub fn evaluations(&self) -> u64 {
        self.evaluations.load(Ordering::Relaxed)
    }

    pub fn hist_get(&self, k: &str) -> u64 {
        self.hist.lock().unwrap().get(k).copied().unwrap_or(0)
    }

    pub fn violation(&self, v: Violation) {
        let mut g = self.violations.lock().unwrap();
        match g.get_mut(&v.cause) {
            Some((old, n)) => {
                *n += 1;
                if v.order < old.order {
                    *old = v;
                }
            }
            None => {
                g.insert(v.cause.clone(), (v, 1));
            }
        }
    }

    pub fn violation_count(&self) -> usize {
        self.violations.lock().unwrap().len()
    }

    pub fn sample(&self, v: Value) {
        let mut g = self.samples.lock().unwrap();
        if g.len() < 12 {
            g.push(v);
        }
    }

    pub fn set(&self, k: &str, v: Value) {
        self.extra.lock().unwrap().insert(k.to_string(), v);
    }

    pub fn assume(&self, s: &str) {
        self.assumptions.lock().unwrap().push(s.to_string());
    }

    pub fn rule(&self, s: &str) {
        *self.rule.lock().unwrap() = s.to_string();
    }

    /// A cap fired: the run is not exhaustive for the stated bound; `what` names what *was* completed.
    pub fn cap(&self, what: &str) {
        self.exhaustive.store(false, Ordering::Relaxed);
        self.caps.lock().unwrap().push(what.to_string());
    }

    /// Machinery failure: print and exit 2.
    pub fn machinery(&self, msg: &str) -> ! {
        eprintln!("MACHINERY-ERROR property={} {}", self.prop, msg);
        std::process::exit(2)
    }

    /// Finish an exploration: re-execute every counterexample through `recheck` (must reproduce
    /// with the same cause, else machinery error), match against known findings, write replay
    /// files + evidence, print the verdict lines and exit.
    pub fn finish(self, recheck: &dyn Fn(&Value) -> Vec<Violation>) -> ! {
        let root = verif_root();
        let known = load_known(&root, &self.prop);
        let viols = std::mem::take(&mut *self.violations.lock().unwrap());
        let mut unlisted = 0usize;
        let mut known_hits: Vec<Value> = Vec::new();
        let mut viol_summaries: Vec<Value> = Vec::new();
        let mut lines: Vec<String> = Vec::new();
        for (cause, (v, count)) in &viols {
            // reproduce
            let again = recheck(&v.case);
            if !again.iter().any(|a| &a.cause == cause) {
                // Write the non-reproducing case for inspection, then fail as machinery.
                let p = root.join(".work").join(format!("{}-nonrepro.json", self.prop));
                let _ = std::fs::create_dir_all(p.parent().unwrap());
                let _ = std::fs::write(
                    &p,
                    serde_json::to_string_pretty(
                        &json!({"cause": cause, "what": v.what, "case": v.case,
                                "again": again.iter().map(|a| a.cause.clone()).collect::<Vec<_>>()}),
                    )
                    .unwrap(),
                );
                self.machinery(&format!(
                    "counterexample did not reproduce on replay (cause {:?}); see {}",
                    cause,
                    p.display()
                ));
            }
            if let Some(k) = known.iter().find(|k| k.status == "open" && k.matches(cause)) {
                lines.push(format!(
                    "KNOWN-FINDING: property={} {} [{}; {} witnesses; smallest: {}]",
                    self.prop, k.what, k.id, count, v.what
                ));
                known_hits.push(json!({"id": k.id, "cause": cause, "witnesses": count, "smallest": v.what}));
            } else {
                unlisted += 1;
                let slug = if !cfg!(debug_assertions) {
                    format!("release-{}", slugify(cause))
                } else if let Ok(prefix) = std::env::var("CLAPMC_REPLAY_PREFIX") {
                    format!("{}{}", prefix, slugify(cause))
                } else if std::env::var_os("CLAPMC_EVIDENCE_MERGE_KEY").is_some() {
                    format!("default-features-{}", slugify(cause))
                } else {
                    slugify(cause)
                };
                let dir = root.join("replays").join(&self.prop);
                let _ = std::fs::create_dir_all(&dir);
                let path = dir.join(format!("{}.json", slug));
                let body = json!({
                    "property": self.prop,
                    "profile": if cfg!(debug_assertions) { "debug-assertions" } else { "release" },
                    "cause": cause,
                    "what": v.what,
                    "witnesses_in_this_run": count,
                    "case": v.case,
                });
                if let Err(e) = std::fs::write(&path, serde_json::to_string_pretty(&body).unwrap()) {
                    self.machinery(&format!("cannot write replay file {}: {}", path.display(), e));
                }
                lines.push(format!("  cause: {}\n  what: {}", cause, v.what));
                lines.push(format!("VIOLATION property={} replay={}", self.prop, path.display()));
                viol_summaries.push(json!({"cause": cause, "witnesses": count, "what": v.what, "replay": path.display().to_string()}));
            }
        }
        // evidence
        let hist = self.hist.lock().unwrap().clone();
        let mut cov = Map::new();
        let evaluations = self.evaluations.load(Ordering::Relaxed);
        let mut states = self.states.load(Ordering::Relaxed);
        let mut transitions = self.transitions.load(Ordering::Relaxed);
        if states == 0 {
            states = evaluations;
        }
        if transitions == 0 {
            transitions = evaluations;
        }
        cov.insert("states".into(), json!(states));
        cov.insert("transitions".into(), json!(transitions));
        cov.insert(
            "traces_validated_against_impl".into(),
            json!(self.validated.load(Ordering::Relaxed)),
        );
        cov.insert("evaluations".into(), json!(evaluations));
        cov.insert(
            "distinct_nontrivial".into(),
            json!(self.nontrivial.load(Ordering::Relaxed)),
        );
        cov.insert("rule".into(), json!(self.rule.lock().unwrap().clone()));
        let mut samples = self.samples.lock().unwrap().clone();
        if samples.is_empty() {
            samples.push(json!("no sample recorded"));
        }
        cov.insert("samples".into(), Value::Array(samples));
        cov.insert(
            "exhaustive".into(),
            json!(self.exhaustive.load(Ordering::Relaxed)),
        );
        cov.insert("caps_hit".into(), json!(self.caps.lock().unwrap().clone()));
        cov.insert(
            "outcome_histogram".into(),
            Value::Object(hist.iter().map(|(k, v)| (k.clone(), json!(v))).collect()),
        );
        cov.insert("distinct_outcome_classes".into(), json!(hist.len()));
        cov.insert("known_findings_seen".into(), Value::Array(known_hits));
        cov.insert("unlisted_violations".into(), Value::Array(viol_summaries));
        cov.insert("threads".into(), json!(crate::par::threads()));
        for (k, v) in self.extra.lock().unwrap().iter() {
            cov.insert(k.clone(), v.clone());
        }
        let ev = json!({
            "property_id": self.prop,
            "tier": self.tier.name(),
            "seed": self.seed,
            "level": "model_checking",
            "coverage": Value::Object(cov),
            "assumptions": self.assumptions.lock().unwrap().clone(),
            "wall_s": (self.start.elapsed().as_secs_f64() * 1000.0).round() / 1000.0,
            "violations": unlisted,
        });
        if let Err(e) = write_evidence(&root, &self.prop, ev) {
            self.machinery(&format!("cannot write evidence: {}", e));
        }
        for l in &lines {
            println!("{}", l);
        }
        println!(
            "{} {}: evaluations={} states={} transitions={} nontrivial={} classes={} exhaustive={} wall={:.1}s unlisted_violations={}",
            self.prop,
            self.tier.name(),
            evaluations,
            states,
            transitions,
            self.nontrivial.load(Ordering::Relaxed),
            hist.len(),
            self.exhaustive.load(Ordering::Relaxed),
            self.start.elapsed().as_secs_f64(),
            unlisted
        );
        std::process::exit(if unlisted > 0 { 1 } else { 0 })
    }
}

/// Is this the second, release-profile pass of a check (debug assertions and overflow checks
/// compiled out), run by the driver after the debug pass?
pub fn release_replay() -> bool {
    std::env::var_os("CLAPMC_RELEASE_REPLAY").is_some()
}

/// Key under `coverage` for a secondary pass whose numbers are merged into the primary pass's
/// evidence instead of replacing it (release-profile replay, default-feature pass).
fn merge_key() -> Option<String> {
    if release_replay() {
        return Some("release_profile_replay".into());
    }
    std::env::var("CLAPMC_EVIDENCE_MERGE_KEY").ok()
}

/// Write the evidence file. In the release-profile pass the debug pass's evidence is kept and the
/// pass's own numbers are merged in under `coverage.release_profile_replay`.
pub fn write_evidence(root: &std::path::Path, prop: &str, ev: Value) -> Result<(), String> {
    let evdir = root.join("evidence");
    let _ = std::fs::create_dir_all(&evdir);
    let evpath = evdir.join(format!("{}.json", prop));
    let out = if let Some(key) = merge_key() {
        let mut base: Value = std::fs::read_to_string(&evpath).ok().and_then(|t| serde_json::from_str(&t).ok()).unwrap_or_else(|| ev.clone());
        let cov = &ev["coverage"];
        let summary = json!({
            "pass": if release_replay() { "release profile: opt-level 2, debug-assertions off, overflow-checks off; explores exactly the configurations the debug pass found valid".to_string() } else { std::env::var("CLAPMC_EVIDENCE_MERGE_NOTE").unwrap_or_default() },
            "evaluations": cov["evaluations"], "states": cov["states"], "transitions": cov["transitions"],
            "outcome_histogram": cov["outcome_histogram"], "unlisted_violations": cov["unlisted_violations"],
            "known_findings_seen": cov["known_findings_seen"], "exhaustive": cov["exhaustive"], "wall_s": ev["wall_s"],
        });
        base["coverage"][key.as_str()] = summary;
        let v = base["violations"].as_u64().unwrap_or(0) + ev["violations"].as_u64().unwrap_or(0);
        base["violations"] = json!(v);
        let w = base["wall_s"].as_f64().unwrap_or(0.0) + ev["wall_s"].as_f64().unwrap_or(0.0);
        base["wall_s"] = json!(w);
        base
    } else {
        ev
    };
    std::fs::write(&evpath, serde_json::to_string_pretty(&out).unwrap() + "\n").map_err(|e| format!("{}: {}", evpath.display(), e))
}

/// Replay mode: load the file, run `recheck` on its case, report.
pub fn run_replay(prop: &str, path: &std::path::Path, recheck: &dyn Fn(&Value) -> Vec<Violation>) -> ! {
    let txt = std::fs::read_to_string(path).unwrap_or_else(|e| {
        eprintln!("MACHINERY-ERROR cannot read {}: {}", path.display(), e);
        std::process::exit(2)
    });
    let v: Value = serde_json::from_str(&txt).unwrap_or_else(|e| {
        eprintln!("MACHINERY-ERROR bad replay file {}: {}", path.display(), e);
        std::process::exit(2)
    });
    let case = v.get("case").cloned().unwrap_or(v.clone());
    let got = recheck(&case);
    if got.is_empty() {
        println!("replay: property {} holds on this case (no violation reproduced)", prop);
        std::process::exit(0)
    }
    for g in &got {
        println!("  cause: {}\n  what: {}", g.cause, g.what);
    }
    println!("VIOLATION property={} replay={}", prop, path.display());
    std::process::exit(1)
}

#[derive(Clone, Debug)]
pub struct Known {
    pub id: String,
    pub status: String,
    pub cause: String,
    pub cause_prefix: bool,
    pub what: String,
}

impl Known {
    pub fn matches(&self, cause: &str) -> bool {
        if self.cause_prefix {
            cause.starts_with(&self.cause)
        } else {
            cause == self.cause
        }
    }
}

pub fn load_known(root: &std::path::Path, prop: &str) -> Vec<Known> {
    let p = root.join("known_findings.json");
    let Ok(txt) = std::fs::read_to_string(&p) else {
        return vec![];
    };
    let v: Value = match serde_json::from_str(&txt) {
        Ok(v) => v,
        Err(e) => {
            eprintln!("MACHINERY-ERROR bad known_findings.json: {}", e);
            std::process::exit(2)
        }
    };
    let mut out = vec![];
    if let Some(a) = v.get("findings").and_then(|x| x.as_array()) {
        for e in a {
            if e.get("property").and_then(|x| x.as_str()) != Some(prop) {
                continue;
            }
            let s = |k: &str| e.get(k).and_then(|x| x.as_str()).unwrap_or("").to_string();
            out.push(Known {
                id: s("id"),
                status: s("status"),
                cause: s("cause"),
                cause_prefix: e.get("cause_is_prefix").and_then(|x| x.as_bool()).unwrap_or(false),
                what: s("what"),
            });
        }
    }
    out
}

pub fn slugify(s: &str) -> String {
    let mut out = String::new();
    for c in s.chars() {
        if c.is_ascii_alphanumeric() {
            out.push(c.to_ascii_lowercase());
        } else if !out.ends_with('-') {
            out.push('-');
        }
    }
    let out = out.trim_matches('-').to_string();
    // keep names short but unique
    let mut h: u64 = 0xcbf29ce484222325;
    for b in s.bytes() {
        h ^= b as u64;
        h = h.wrapping_mul(0x100000001b3);
    }
    let head: String = out.chars().take(60).collect();
    format!("{}-{:08x}", head.trim_matches('-'), (h & 0xffff_ffff) as u32)
}


/// Hand-over of the validity gate's verdicts from the debug pass to the release pass (the gate —
/// clap's debug assertions — does not exist in a release build).
pub fn save_valid(prop: &str, accepted: &[usize]) {
    let p = verif_root().join(".work").join(format!("{}.valid.json", prop));
    let _ = std::fs::create_dir_all(p.parent().unwrap());
    let _ = std::fs::write(p, serde_json::to_string(accepted).unwrap());
}

pub fn load_valid(prop: &str) -> Option<std::collections::HashSet<usize>> {
    let p = verif_root().join(".work").join(format!("{}.valid.json", prop));
    let t = std::fs::read_to_string(p).ok()?;
    let v: Vec<usize> = serde_json::from_str(&t).ok()?;
    Some(v.into_iter().collect())
}
