//! Explicit-state breadth-first search with canonical-state deduplication.
//!
//! The transition function supplied by a check *is* a call of the real method under test on a
//! clone (or a replayed rebuild) of the state; this module only owns the frontier, the visited
//! set, parent pointers (for shortest traces) and the counters that go into the evidence.

use std::collections::HashMap;
use std::hash::Hash;

#[derive(Default, Clone, Debug)]
pub struct BfsStats {
    pub states: u64,
    pub transitions: u64,
    pub max_depth: u32,
    /// true when the frontier emptied before `max_depth`/`max_states` cut anything off
    pub fixpoint: bool,
    pub depth_capped: bool,
    pub state_capped: bool,
}

pub struct Bfs<S, A, K> {
    pub nodes: Vec<(S, Option<(usize, A)>, u32)>,
    seen: HashMap<K, usize>,
    pub stats: BfsStats,
}

impl<S, A: Clone, K: Hash + Eq> Bfs<S, A, K> {
    /// Explore from `inits`. `canon` keys the visited set. `expand(state, depth)` returns the
    /// labelled successors (already computed by calling the real code). `visit(state, idx)` is
    /// called once per *distinct* state (invariant evaluation); `on_edge(from, action, to)` once
    /// per transition including those leading to already-seen states (lock-step comparison is
    /// done inside `expand` by the caller, which sees every transition).
    pub fn run(
        inits: Vec<S>,
        canon: impl Fn(&S) -> K,
        mut expand: impl FnMut(&S, u32) -> Vec<(A, S)>,
        mut visit: impl FnMut(&S, usize, u32),
        max_depth: u32,
        max_states: usize,
    ) -> Bfs<S, A, K> {
        let mut b = Bfs {
            nodes: Vec::new(),
            seen: HashMap::new(),
            stats: BfsStats::default(),
        };
        for s in inits {
            let k = canon(&s);
            if !b.seen.contains_key(&k) {
                let idx = b.nodes.len();
                b.seen.insert(k, idx);
                b.nodes.push((s, None, 0));
            }
        }
        let mut head = 0usize;
        let mut cut_depth = false;
        let mut cut_states = false;
        while head < b.nodes.len() {
            let depth = b.nodes[head].2;
            {
                let s = &b.nodes[head].0;
                visit(s, head, depth);
            }
            if depth >= max_depth {
                // do not expand; note whether anything would have been expanded
                cut_depth = true;
                head += 1;
                continue;
            }
            let succ = {
                let s = &b.nodes[head].0;
                expand(s, depth)
            };
            for (a, t) in succ {
                b.stats.transitions += 1;
                let k = canon(&t);
                if !b.seen.contains_key(&k) {
                    if b.nodes.len() >= max_states {
                        cut_states = true;
                        continue;
                    }
                    let idx = b.nodes.len();
                    b.seen.insert(k, idx);
                    b.nodes.push((t, Some((head, a)), depth + 1));
                    if depth + 1 > b.stats.max_depth {
                        b.stats.max_depth = depth + 1;
                    }
                }
            }
            head += 1;
        }
        b.stats.states = b.nodes.len() as u64;
        b.stats.depth_capped = cut_depth;
        b.stats.state_capped = cut_states;
        b.stats.fixpoint = !cut_depth && !cut_states;
        b
    }

    /// Shortest action trace from an initial state to node `idx`.
    pub fn trace(&self, mut idx: usize) -> Vec<A> {
        let mut out = Vec::new();
        while let Some((p, a)) = &self.nodes[idx].1 {
            out.push(a.clone());
            idx = *p;
        }
        out.reverse();
        out
    }
}
