//! Parallel enumeration of numbered blocks (one block = one configuration, typically).

use std::sync::atomic::{AtomicUsize, Ordering};

pub fn threads() -> usize {
    if let Ok(v) = std::env::var("CLAPMC_THREADS") {
        if let Ok(n) = v.parse::<usize>() {
            return n.max(1);
        }
    }
    std::thread::available_parallelism()
        .map(|n| n.get())
        .unwrap_or(4)
        .min(16)
}

/// Run `f(block, tid)` for every block in `0..n`, blocks handed out in ascending order to
/// `threads()` OS threads. Returns when all blocks are done. Worker stack: 64 MiB (clap's parser
/// recurses per subcommand level only, but runaway recursion should hit the guard page late
/// enough to be unmistakable).
pub fn par_blocks<F>(n: usize, f: F)
where
    F: Fn(usize, usize) + Sync,
{
    let next = AtomicUsize::new(0);
    let nt = threads().min(n.max(1));
    std::thread::scope(|s| {
        for tid in 0..nt {
            let next = &next;
            let f = &f;
            std::thread::Builder::new()
                .stack_size(64 << 20)
                .spawn_scoped(s, move || loop {
                    let b = next.fetch_add(1, Ordering::Relaxed);
                    if b >= n {
                        break;
                    }
                    f(b, tid);
                })
                .expect("spawn worker");
        }
    });
}
