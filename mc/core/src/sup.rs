//! E3 supervisor: process isolation for executions that may abort (stack overflow, allocation
//! failure) or never return.
//!
//! The check binary re-executes itself as a child. The child publishes, per worker thread, the
//! (block, case) it is executing into a MAP_SHARED journal file (two relaxed stores per case — the
//! page cache keeps them when the process dies). A watchdog thread in the child exits with code 97
//! when one case has been running for `STALL_SECS`. On child death or stall the parent re-runs every
//! in-flight case alone in a fresh child with a timeout; a reproducible death/stall is a violation
//! whose replay file is the case description the child wrote just before executing it; anything
//! that does not reproduce is a machinery error (exit 2), never a verdict.

use crate::report::{slugify, verif_root, Cli, Mode};
use serde_json::{json, Value};
use std::path::PathBuf;
use std::process::{Command, Stdio};
use std::sync::atomic::{AtomicU64, Ordering};
use std::time::{Duration, Instant};

pub const STALL_SECS: u64 = 10;
pub const SLOTS: usize = 64;
const WORDS: usize = 4; // block, case, seq, busy

pub struct Journal {
    ptr: *mut AtomicU64,
}
unsafe impl Sync for Journal {}
unsafe impl Send for Journal {}

fn work_dir() -> PathBuf {
    let d = verif_root().join(".work");
    let _ = std::fs::create_dir_all(&d);
    d
}

fn journal_path(prop: &str) -> PathBuf {
    work_dir().join(format!("{}.journal", prop))
}

fn case_path(prop: &str) -> PathBuf {
    work_dir().join(format!("{}.case.json", prop))
}

impl Journal {
    pub fn create(prop: &str) -> Journal {
        use std::os::unix::io::AsRawFd;
        let path = journal_path(prop);
        let f = std::fs::OpenOptions::new()
            .read(true)
            .write(true)
            .create(true)
            .truncate(true)
            .open(&path)
            .expect("journal file");
        let len = SLOTS * WORDS * 8;
        f.set_len(len as u64).expect("journal len");
        let p = unsafe {
            libc::mmap(
                std::ptr::null_mut(),
                len,
                libc::PROT_READ | libc::PROT_WRITE,
                libc::MAP_SHARED,
                f.as_raw_fd(),
                0,
            )
        };
        assert!(p != libc::MAP_FAILED, "mmap journal");
        Journal { ptr: p as *mut AtomicU64 }
    }

    /// A journal that goes nowhere (unsupervised runs).
    pub fn dummy() -> Journal {
        let v: Vec<AtomicU64> = (0..SLOTS * WORDS).map(|_| AtomicU64::new(0)).collect();
        let b = v.into_boxed_slice();
        Journal { ptr: Box::leak(b).as_mut_ptr() }
    }

    #[inline]
    fn word(&self, tid: usize, w: usize) -> &AtomicU64 {
        unsafe { &*self.ptr.add((tid % SLOTS) * WORDS + w) }
    }

    #[inline]
    pub fn begin(&self, tid: usize, block: u64, case: u64) {
        self.word(tid, 0).store(block, Ordering::Relaxed);
        self.word(tid, 1).store(case, Ordering::Relaxed);
        self.word(tid, 2).fetch_add(1, Ordering::Relaxed);
        self.word(tid, 3).store(1, Ordering::Relaxed);
    }

    #[inline]
    pub fn end(&self, tid: usize) {
        self.word(tid, 3).store(0, Ordering::Relaxed);
    }

    fn snapshot(&self) -> Vec<[u64; 4]> {
        (0..SLOTS)
            .map(|t| {
                [
                    self.word(t, 0).load(Ordering::Relaxed),
                    self.word(t, 1).load(Ordering::Relaxed),
                    self.word(t, 2).load(Ordering::Relaxed),
                    self.word(t, 3).load(Ordering::Relaxed),
                ]
            })
            .collect()
    }

    /// Watchdog: exits the process with 97 when a busy slot has not changed for STALL_SECS.
    pub fn start_watchdog(&'static self, prop: &'static str) {
        std::thread::spawn(move || {
            let mut last = self.snapshot();
            let mut since: Vec<Instant> = vec![Instant::now(); SLOTS];
            loop {
                std::thread::sleep(Duration::from_millis(500));
                let now = self.snapshot();
                for t in 0..SLOTS {
                    if now[t] != last[t] || now[t][3] == 0 {
                        since[t] = Instant::now();
                    } else if since[t].elapsed() > Duration::from_secs(STALL_SECS) {
                        let p = work_dir().join(format!("{}.stall", prop));
                        let _ = std::fs::write(&p, format!("{} {}", now[t][0], now[t][1]));
                        eprintln!(
                            "watchdog: case block={} case={} running for more than {}s",
                            now[t][0], now[t][1], STALL_SECS
                        );
                        std::process::exit(97);
                    }
                }
                last = now;
            }
        });
    }
}

fn read_journal(prop: &str) -> Vec<[u64; 4]> {
    let Ok(bytes) = std::fs::read(journal_path(prop)) else {
        return vec![];
    };
    bytes
        .chunks_exact(WORDS * 8)
        .map(|c| {
            let w = |i: usize| u64::from_ne_bytes(c[i * 8..i * 8 + 8].try_into().unwrap());
            [w(0), w(1), w(2), w(3)]
        })
        .collect()
}

pub fn is_child() -> bool {
    std::env::var_os("CLAPMC_CHILD").is_some() || std::env::var_os("CLAPMC_NOSUP").is_some()
}

/// `--case <block> <case>` in the extra args.
pub fn single_case(cli: &Cli) -> Option<(u64, u64)> {
    let i = cli.rest.iter().position(|a| a == "--case")?;
    Some((cli.rest.get(i + 1)?.parse().ok()?, cli.rest.get(i + 2)?.parse().ok()?))
}

/// Called by the child in `--case` mode just before executing the case.
pub fn describe_case(prop: &str, case: &Value) {
    let _ = std::fs::write(case_path(prop), serde_json::to_string_pretty(case).unwrap());
}

/// In the parent: run the child and interpret its fate. Never returns in the parent.
/// In the child (env CLAPMC_CHILD) or in replay mode returns immediately.
pub fn supervise(prop: &str, cli: &Cli) {
    if is_child() {
        return;
    }
    let tier = match &cli.mode {
        Mode::Explore(t) => *t,
        Mode::Replay(_) => return,
    };
    let exe = std::env::current_exe().expect("current_exe");
    let _ = std::fs::remove_file(work_dir().join(format!("{}.stall", prop)));
    let t0 = Instant::now();
    let status = Command::new(&exe)
        .arg(tier.name())
        .args(&cli.rest)
        .env("CLAPMC_CHILD", "1")
        .stdin(Stdio::null())
        .status()
        .expect("spawn child");
    if let Some(c) = status.code() {
        if c == 0 || c == 1 || c == 2 {
            std::process::exit(c);
        }
    }
    eprintln!("supervisor: exploration child ended abnormally ({status:?}); isolating in-flight cases");
    let mut suspects: Vec<(u64, u64)> = Vec::new();
    if status.code() == Some(97) {
        if let Ok(s) = std::fs::read_to_string(work_dir().join(format!("{}.stall", prop))) {
            let mut it = s.split_whitespace().filter_map(|x| x.parse::<u64>().ok());
            if let (Some(b), Some(c)) = (it.next(), it.next()) {
                suspects.push((b, c));
            }
        }
    }
    for s in read_journal(prop) {
        if s[3] == 1 && !suspects.contains(&(s[0], s[1])) {
            suspects.push((s[0], s[1]));
        }
    }
    let mut confirmed: Vec<(u64, u64, String, Value)> = Vec::new();
    for (b, c) in &suspects {
        if !confirmed.is_empty() {
            // one reproducible witness is enough to report; the exploration has to be re-run
            // after a repair anyway
            break;
        }
        let _ = std::fs::remove_file(case_path(prop));
        let mut child = Command::new(&exe)
            .arg(tier.name())
            .args(&cli.rest)
            .arg("--case")
            .arg(b.to_string())
            .arg(c.to_string())
            .env("CLAPMC_CHILD", "1")
            .env("CLAPMC_THREADS", "1")
            .stdin(Stdio::null())
            .stdout(Stdio::null())
            .spawn()
            .expect("spawn case child");
        let t = Instant::now();
        let fate = loop {
            match child.try_wait() {
                Ok(Some(st)) => break Some(st),
                Ok(None) => {
                    if t.elapsed() > Duration::from_secs(3 * STALL_SECS) {
                        let _ = child.kill();
                        let _ = child.wait();
                        break None;
                    }
                    std::thread::sleep(Duration::from_millis(50));
                }
                Err(_) => break None,
            }
        };
        let desc = std::fs::read_to_string(case_path(prop))
            .ok()
            .and_then(|s| serde_json::from_str::<Value>(&s).ok())
            .unwrap_or(json!({"block": b, "case": c}));
        match fate {
            None => confirmed.push((*b, *c, "does not terminate (killed after 30 s alone in a fresh process)".into(), desc)),
            Some(st) if st.code() == Some(0) || st.code() == Some(1) => {}
            Some(st) => confirmed.push((*b, *c, format!("process death {st:?} (abort / stack overflow / allocation failure)"), desc)),
        }
    }
    if confirmed.is_empty() {
        eprintln!(
            "MACHINERY-ERROR property={} child died ({status:?}) but none of {} in-flight cases reproduces alone",
            prop,
            suspects.len()
        );
        std::process::exit(2);
    }
    let root = verif_root();
    let dir = root.join("replays").join(prop);
    let _ = std::fs::create_dir_all(&dir);
    let mut n = 0;
    for (b, c, how, desc) in &confirmed {
        let cause = format!("process-level failure: {}", how);
        let path = dir.join(format!("{}-b{}c{}.json", slugify(&cause), b, c));
        let body = json!({"property": prop, "profile": if cfg!(debug_assertions) { "debug-assertions" } else { "release" }, "cause": cause, "what": how, "case": desc});
        let _ = std::fs::write(&path, serde_json::to_string_pretty(&body).unwrap());
        println!("  cause: {}", cause);
        println!("VIOLATION property={} replay={}", prop, path.display());
        n += 1;
    }
    // minimal but honest evidence: the exploration did not complete
    let ev = json!({
        "property_id": prop, "tier": tier.name(), "seed": cli.seed, "level": "model_checking",
        "coverage": {"states": 1, "transitions": 1, "traces_validated_against_impl": 0,
            "samples": confirmed.iter().map(|x| x.3.clone()).collect::<Vec<_>>(),
            "evaluations": confirmed.len(), "distinct_nontrivial": confirmed.len(),
            "exhaustive": false,
            "explanation": "exploration child died or stalled; the supervisor isolated the in-flight cases listed in samples"},
        "assumptions": [], "wall_s": t0.elapsed().as_secs_f64(), "violations": n
    });
    let _ = crate::report::write_evidence(&root, prop, ev);
    std::process::exit(1);
}
