#!/bin/bash
# Apply a kept seeded change to /repo, run the given checks (quick), undo. Usage: try_seed.sh <seed-id> <Cxx>...
SID=$1; shift
P=/verif/seeded/$SID/patch.diff
cd /repo && git diff --quiet || { echo "/repo has uncommitted changes"; exit 2; }
git -C /repo apply "$P" || { echo "patch does not apply to /repo HEAD"; exit 2; }
for C in "$@"; do
  T0=$(date +%s)
  OUT=$(cd /verif && ./check $C ${TIER:-quick} 2>&1); RC=$?
  T1=$(date +%s)
  echo "== seed $SID check $C exit=$RC ($((T1-T0))s)"
  echo "$OUT" | grep -E "VIOLATION|KNOWN-FINDING|MACHINERY|cause:|what:" | head -8
done
git -C /repo checkout -- .
# replay files produced against a mutant are not evidence about the unchanged tree
