#!/bin/bash
# Run every kept seeded change against the quick check of the property it breaks (plus any extra
# checks given in EXTRA below), record results in seeded/RESULTS.tsv and in each meta.json.
# /repo must be clean; every patch is reverted after its run.
cd /verif
declare -A EXTRA=( [C01-b]="C03" [C02-a]="C01 C09" [C08-a]="C05" [C10-a]="C02" [C10-c]="C03" [C10-d]="C06" [C02-f]="C09" [C10-f]="C04" )
: > seeded/RESULTS.tsv
for D in seeded/C*/; do
  SID=$(basename $D)
  PROP=${SID%-*}
  CHECKS="$PROP ${EXTRA[$SID]:-}"
  # C01-b is a non-termination bug found through the relation family (C03); C01 quick does not reach it
  for C in $CHECKS; do
    git -C /repo diff --quiet || { echo "/repo dirty"; exit 2; }
    git -C /repo apply /verif/${D}patch.diff || { echo -e "$SID\t$C\tPATCH-DOES-NOT-APPLY" >> seeded/RESULTS.tsv; continue; }
    T0=$(date +%s)
    OUT=$(./check $C quick 2>&1); RC=$?
    T1=$(date +%s)
    git -C /repo checkout -- .
    CAUSE=$(echo "$OUT" | grep -m1 "cause:" | sed 's/^ *cause: //' | cut -c1-160)
    echo -e "$SID\t$C\texit=$RC\t$((T1-T0))s\t$CAUSE" >> seeded/RESULTS.tsv
  done
done
rm -rf replays/*
python3 - <<'PY'
import json,collections
rows=[l.rstrip('\n').split('\t') for l in open('/verif/seeded/RESULTS.tsv')]
by=collections.defaultdict(list)
for r in rows:
    if len(r)>=3 and r[2]=='exit=1': by[r[0]].append(r[1])
for sid in sorted(set(r[0] for r in rows)):
    p=f'/verif/seeded/{sid}/meta.json'
    m=json.load(open(p)); m['detected_by']=by.get(sid,[]); m['checks_run']=[r[1]+':'+r[2] for r in rows if r[0]==sid]
    json.dump(m,open(p,'w'),indent=1)
print("detected:",sum(1 for s in set(r[0] for r in rows) if by.get(s)),"of",len(set(r[0] for r in rows)))
PY
