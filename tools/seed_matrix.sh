#!/bin/bash
# Run kept seeded changes against the quick check of the property they break (plus any extra
# checks given in EXTRA below), record results in seeded/RESULTS.tsv and in each meta.json.
#   seed_matrix.sh            all seeds (RESULTS.tsv rewritten)
#   seed_matrix.sh C14-b ...  only these (their rows in RESULTS.tsv are replaced)
# /repo must be clean and must not be touched while this runs; do not edit /verif/mc either (every
# run rebuilds the checkers). Every patch is reverted after its run.
cd /verif
declare -A EXTRA=( [C01-b]="C03" [C02-a]="C01 C09" [C08-a]="C05" [C10-a]="C02" [C10-c]="C03" [C10-d]="C06" [C02-f]="C09" [C10-f]="C04" [C10-g]="C04" [C15-g]="C04" [C08-i]="C13" [C01-k]="C12" [C02-k]="C14" [C08-k]="C09" [C10-k]="C06" [C10-l]="C07" [C10-o]="C03" [C08-s]="C02" [C05-t]="C02" [C10-t]="C07" [C06-t]="C04" [C16-s]="C09" [C10-u]="C08" )
if [ $# -eq 0 ]; then
  : > seeded/RESULTS.tsv
  LIST=$(ls -d seeded/C*/ | xargs -n1 basename)
else
  LIST="$*"
  for S in $LIST; do sed -i "/^$S\t/d" seeded/RESULTS.tsv; done
fi
for SID in $LIST; do
  D=seeded/$SID/
  PROP=${SID%-*}
  CHECKS="$PROP ${EXTRA[$SID]:-}"
  for C in $CHECKS; do
    git -C /repo diff --quiet || { echo "/repo dirty"; exit 2; }
    git -C /repo apply /verif/${D}patch.diff || { echo -e "$SID\t$C\tPATCH-DOES-NOT-APPLY" >> seeded/RESULTS.tsv; continue; }
    T0=$(date +%s)
    OUT=$(./check $C quick 2>&1); RC=$?
    T1=$(date +%s)
    git -C /repo checkout -- .
    CAUSE=$(echo "$OUT" | grep -m1 "cause:" | sed 's/^ *cause: //' | cut -c1-160)
    echo -e "$SID\t$C\texit=$RC\t$((T1-T0))s\t$CAUSE" >> seeded/RESULTS.tsv
  done
done
sort -o seeded/RESULTS.tsv seeded/RESULTS.tsv
rm -rf replays/*
python3 - <<'PY'
import json,collections,os
rows=[l.rstrip('\n').split('\t') for l in open('/verif/seeded/RESULTS.tsv')]
by=collections.defaultdict(list)
for r in rows:
    if len(r)>=3 and r[2]=='exit=1': by[r[0]].append(r[1])
for sid in sorted(set(r[0] for r in rows)):
    p=f'/verif/seeded/{sid}/meta.json'
    if not os.path.exists(p): continue
    m=json.load(open(p)); m['detected_by']=by.get(sid,[]); m['checks_run']=[r[1]+':'+r[2] for r in rows if r[0]==sid]
    json.dump(m,open(p,'w'),indent=1)
print("detected:",sum(1 for s in set(r[0] for r in rows) if by.get(s)),"of",len(set(r[0] for r in rows)))
PY
