#!/usr/bin/env python3-vt
"""Validate MANIFEST.json and every evidence file against the schemas in /root/.vp."""
import json, sys, glob, jsonschema
ok = True
ms = json.load(open('/root/.vp/MANIFEST.schema.json'))
es = json.load(open('/root/.vp/EVIDENCE.schema.json'))
try:
    m = json.load(open('/verif/MANIFEST.json'))
    jsonschema.validate(m, ms)
    ids = [c['property_id'] for c in m['checks']]
    na = [c['property_id'] for c in m.get('not_applicable', [])]
    props = [json.loads(l)['id'] for l in open('/verif/properties.jsonl')]
    print('manifest ok: claimed', len(ids), 'not_applicable', len(na))
    miss = [p for p in props if p not in ids and p not in na]
    if miss: print('  properties neither claimed nor not_applicable:', miss); ok = False
    both = [p for p in ids if p in na]
    if both: print('  both claimed and not_applicable:', both); ok = False
except Exception as e:
    print('manifest INVALID:', e); ok = False
for f in sorted(glob.glob('/verif/evidence/*.json')):
    try:
        jsonschema.validate(json.load(open(f)), es); print('evidence ok:', f)
    except Exception as e:
        print('evidence INVALID:', f, str(e)[:300]); ok = False
sys.exit(0 if ok else 1)
