#!/usr/bin/env python3
"""patch_evidence.py <evidence.json> <key> <rc> : read one JSON line from stdin and store it under
coverage[<key>]; rc==1 adds one violation."""
import json, sys
ev, key, rc = sys.argv[1], sys.argv[2], int(sys.argv[3])
line = sys.stdin.readline()
try:
    e = json.load(open(ev))
    try:
        e['coverage'][key] = json.loads(line)
    except Exception:
        e['coverage'][key] = {'raw': line.strip()[:400]}
    if rc == 1:
        e['violations'] = e.get('violations', 0) + 1
    json.dump(e, open(ev, 'w'), indent=1)
except Exception as x:
    print('cannot patch evidence:', x)
