#!/usr/bin/env python3
"""Generate MANIFEST.json from the table below (single source of truth for what is claimed)."""
import json
CHECKS = {
 # id: (technique, level text, level note, design ref)
 "C13": ("exhaustive enumeration of all byte strings up to a length bound over a boundary alphabet + explicit-state BFS over ShortFlags call histories, lock-step byte model",
         "Every byte string of length <=6 (quick) / <=7 (thorough) over a 12-byte boundary alphabet is lexed by the real clap_lex and compared with a byte model (classification partition, long re-assembly, short-cluster walk, UTF-8 boundary rule on every returned slice); every interleaving of ShortFlags calls is explored to fixpoint per string. Exhaustive within the alphabet and length bound, nothing beyond it.",
         "Trusted: the byte model and number-shape recogniser in checks/src/bin/c13.rs; unix OsStr encoding; bytes outside the alphabet and longer strings are not covered.", "DESIGN.md §4 C13"),
 "C14": ("exhaustive enumeration of haystack x needle pairs against a byte-slice reference + explicit-state BFS over cursor operation histories in lock-step with a Vec+index model",
         "All haystacks of <=6 (quick) / <=8 (thorough) bytes over 6 boundary bytes x all 84 needles of 1..3 units through the six OsStrExt helpers against naive byte search; all cursor histories of 21 operations (overflowing offsets included) to depth 7/9 from lists of 0..3 items, every transition compared with the list-index model. Exhaustive within those bounds.",
         "Trusted: the naive byte search and the Vec+index model (two variants: index free-runs past len or stays at len; the implementation must match one consistently).", "DESIGN.md §4 C14"),
 "C20": ("exhaustive enumeration of all strings up to K atoms over an 8-atom alphabet x widths 0..8 x {plain, styled}, alignment-relation oracle + independent width function",
         "Every string of <=6 (quick) / <=7 (thorough) atoms over {a, bb, space, newline, wide char, combining mark, two ANSI sequences} is wrapped by the real textwrap::wrap (via {author}) and StyledStr::wrap (via {about}) at every width 0..8 and compared with the alignment relation (only whole runs of spaces become a break + the line's indent; everything else byte-identical and in order) and, for plain text, the width bound with an independent width function. Exhaustive within alphabet, length and width bounds.",
         "Trusted: the alignment relation and width function in checks/src/bin/c20.rs; access through help templates <{author}> / <{about}> (sentinels verified by a self-test on every run).", "DESIGN.md §4 C20"),
 "C01": ("exhaustive enumeration of configuration deviations (iterative deviation bounding) x argv prefix tree over a config-derived token alphabet, on the real parser under a process-isolating supervisor",
         "Every dev(d) configuration (base + all sets of <=d of ~70 single-feature deviations) that clap's own debug-assert gate accepts x every argv in A(cfg)^<=L, each parsed plain and with ignore_errors: quick (d<=1,L<=3)+(d=2,L<=2), thorough (d<=1,L<=4)+(d=2,L<=3)+(d=3,L<=2). Oracle: returns (unwinds caught; aborts/stalls isolated by a supervisor with per-case journal), errors render, ignore_errors yields Ok unless an explicit help/version request. Safety property explored directly on the implementation; no model involved.",
         "Trusted: the deviation catalogue and alphabet (mc/model/src/dev.rs) as the definition of the explored space; debug-assertion profile. Defects needing >d simultaneous deviations, longer argv or features outside the catalogue are not seen.", "DESIGN.md §4 C01"),
 "C02": ("exhaustive enumeration of conventional-class configurations x argv prefix tree, lock-step comparison with a documented-grammar reader (reference model) on every execution",
         "Every conventional configuration (<=N of 13 argument templates x <=F of 7 features, plus 8 hyphen-value configurations) x every argv in A(cfg)^<=L (quick: (2,1,3),(3,0,2),(1,1,4); thorough: (3,2,3),(2,1,4)). On every successful parse the real ArgMatches are compared with the reading of an independent documented-grammar reader: attribution per argument and occurrence, delimiter splitting, nothing invented/dropped, distinct indices reproducing argv order, subcommand dispatch. Exhaustive within these bounds.",
         "Trusted: the documented-grammar reader R1 (mc/model/src/r1.rs, shares no structure with parser.rs); lines it calls unspecified (counted in the evidence) are not compared. Flag subcommands, terminators and trailing_var_arg are outside this class (C01/C05/C09).", "DESIGN.md §3.5, §4 C02"),
 "C03": ("exhaustive enumeration of relation graphs (all sets of <=k catalogue edges) x all orderings of all token subsets, independent relation evaluator as oracle on every successful parse, under a stall/abort supervisor",
         "Every relation graph with <=3 (quick) / <=4 (thorough) edges from a ~75-edge catalogue (conflicts arg/group both ways, exclusive, overrides, requires, requires_if, groups multiple/required/requires/conflicts, required, required_unless any/all, required_if_eq any/all, defaults, env, subcommand settings) that clap's gate accepts x every sequence of distinct tokens of length <=4/3. On every Ok the explicit-presence set must satisfy the independent evaluator R2. Exhaustive within these bounds; a parse that does not return is isolated by the supervisor and reported.",
         "Trusted: relation evaluator R2 (mc/model/src/r2.rs), written from the Arg/ArgGroup documentation, with the lenient group-exemption reading. One-directional (over-strict rejections are C10's business).", "DESIGN.md §3.6, §4 C03"),
 "C05": ("exhaustive enumeration of trailing-positional configurations x spelled prefixes x tail prefix tree over hostile token shapes, differential oracle against the prefix-alone parse",
         "Every trailing-positional configuration (0../1.. x plain/last x with/without a leading positional x String/OsString x <=2 of 14 surrounding features) x 11 prefixes x every tail in T^<=2 (quick) / T^<=3 (thorough), T = 17 token shapes (help/version requests, flags, option spellings, subcommand names and prefixes, `--`, empty, `-`, delimiter, non-UTF-8). `prefix -- tail` must deliver the tail byte-for-byte to the positionals, dispatch no subcommand, produce no help/version request, and leave flags/options as in the parse of the prefix alone. Exhaustive within these bounds.",
         "Trusted: the construction of the expected positional values from prefix and tail (checks/src/bin/c05.rs). Configurations whose positional turns `--` into a value by documentation (allow_hyphen_values / trailing_var_arg already collecting) only get prefixes that leave it untouched.", "DESIGN.md §4 C05"),
 "C07": ("exhaustive enumeration of (argument shape x self-override mode x override relation) x all occurrence sequences up to a length bound, plus every repeat count 0..300, against a fold-by-action reference model",
         "7 shapes of the argument under test (Set/Append option, Count/SetTrue/SetFalse flag, Set/Append multi-value positional) x 3 self-override modes x 8 override relations among three arguments (incl. two overriders of one target) x every sequence of <=4 (quick) / <=6 (thorough) occurrences over {x(v1), x(v2), y, z}; Count additionally for every n in 0..=300, spelled as separate tokens and as one cluster, with a foreign flag at start/middle/end. Typed results (get_one/get_occurrences/get_count/get_flag, value_source) and ArgumentConflict rejections must equal the fold-by-action reference in both directions.",
         "Trusted: the fold reference in checks/src/bin/c07.rs (override acts in both directions at each occurrence; removal restarts a count). Append combined with an explicit overrides_with(self) is not enumerated (pinned by neither property nor documentation).", "DESIGN.md §4 C07"),
 "C06": ("exhaustive cross product of origin features on one argument (kind x default x default_value_if x default_missing x env state x one relation) x all token sequences up to a bound, against a source-lattice reference model",
         "Every applicable configuration of the argument under test (5 kinds x default x 5 conditional-default variants x default_missing x 4 environment states x 13 relations/settings incl. ignore_errors recovery and global+subcommand; ~2.2k thorough) x every sequence of <=3 (quick) / <=4 (thorough) distinct tokens. Expected origin, value and value_source come from the lattice command line > environment > conditional default > default > absent; presence clauses check that defaults never trigger or satisfy conflicts/requirements/arg_required_else_help while environment values do, and that a command-line value is never displaced by a non-command-line origin.",
         "Trusted: lattice function r3() and presence clauses in checks/src/bin/c06.rs; fixed process environment (fix_env). Not pinned (excluded): repeated Set arguments (C07), a global supplied at two levels (C09), conditional defaults of a global evaluated per level, explicit defaults on flags.", "DESIGN.md §4 C06"),
 "C08": ("exhaustive enumeration of successful lines (configurations x argv prefix tree) x all applicable spelling rewrites and their pairwise compositions, observation-equality oracle; plus exhaustive prefix enumeration on shared-prefix trees",
         "For every conventional configuration x every argv in A(cfg)^<=L that parses and that the documented-grammar reader accepts, every applicable rewrite of a root-level token (--o=v<->--o v, -ov<->-o v<->-o=v, cluster<->separate shorts, alias<->canonical, unique prefix<->full name, explicit -- before plain trailing positionals) and every composition of two is parsed and must give the same observation (values, grouping, sources, indices up to renumbering). Ambiguity family: every prefix of every long/alias/subcommand name of two trees with shared prefixes (incl. another argument's alias and the generated help/version): ambiguous prefixes must never be accepted, exact names win, unique prefixes resolve.",
         "Trusted: the rewrite generator (checks/src/bin/c08.rs) and R1's reading that drives it; rewrites are only applied where documentation makes spellings equivalent (single-value options, non-flag-looking positionals).", "DESIGN.md §4 C08"),
 "C09": ("exhaustive construction of all lines over a bounded tree family: chains x spellings x per-level placements of locals and of the global, expected structure known by construction",
         "180 tree configurations (6 naming variants of the subcommands incl. long-flag-alias-only, 5 kinds of global argument, defined at level 0 or 1, external subcommands none/String/OsString at the deepest level) x every chain of depth 0..2 below the root spelled every available way (name, alias, long flag, short flag, short-flag cluster carrying the level's own shorts and a value-less global) x every combination of two local flags per level (the second always in a later short group, exercising the cluster resume logic) x every subset of levels supplying the global x external tails. Oracle: reported chain == named chain; locals attributed to their level only; the global has identical value and source at every level at/below its definition, command-line source and one level's occurrences when supplied, its default otherwise; external name and arguments verbatim.",
         "Trusted: line construction in checks/src/bin/c09.rs (the expectation is built together with the line). Which level wins when a global is supplied at several levels is deliberately not asserted. Trees deeper than 3 levels or with more than 2 children are not explored.", "DESIGN.md §4 C09"),
 "C10": ("exhaustive enumeration of lines (configurations x argv prefix tree; relation graphs x token orderings) containing every fault-free line and every single-fault mutation within the bound, classification oracle from two reference models",
         "Part 1: every conventional / hyphen-value / positional-order configuration x every argv in A(cfg)^<=L (same bounds as C02) — the space contains every fault-free line up to L and all its single-token mutations. The documented-grammar reader's set of broken rule classes decides: none broken => must parse; rejected => kind must lie in the class of a broken rule. Part 2: every relation graph with <=2 (quick) / <=3 (thorough) edges x every ordering of <=3 distinct tokens; presence is derived from the line, R2 without conflict exemptions decides whether ArgumentConflict / MissingRequiredArgument is justified and whether a line breaking nothing is accepted. Every error anywhere: use_stderr <=> not help/version, exit code 0/2, suggested args/subcommands/values exist in the definition.",
         "Trusted: R1 (grammar) and R2 (relations) models; kind classes listed in the evidence assumptions. Where documentation allows both outcomes (requirement broken but possibly excused by a conflict) neither is flagged.", "DESIGN.md §4 C10"),
 "C11": ("explicit-state breadth-first search over operation histories on one Command value (real method calls as transitions, Debug-text canonical states), invariant = agreement with a fresh definition on every probe argv in every reached state",
         "Per configuration (28 quick / ~90 thorough dev(<=2) picks: nested and flag subcommands, globals, groups, inference, multicall, required args, help/version variants) two BFS runs over histories of {parse(argv_i) for 16 probe lines incl. failing ones, render help/long help/usage/version, clone} and the same plus build(), deduplicated on the Command's full Debug text, run to fixpoint (depth bound 5/8, reached on the current tree). In every distinct state every probe line is parsed on a clone and must equal the fresh definition's result: equal ArgMatches, same error kind, identical rendered message when no explicit build is in the history; build must be idempotent.",
         "Trusted: Debug text of Command as a complete state description (no deferred closures in the explored definitions); probe set as listed in checks/src/bin/c11.rs. Histories involving other argv than the probes are not explored.", "DESIGN.md §4 C11"),
 "C12": ("exhaustive enumeration of help-shape configurations x terminal widths x entry points on the real renderer under a process-isolating supervisor; structural oracle on the rendered text",
         "Configurations with <=2 arguments drawn from 15 shapes (short-only/long-only/both flags, short/long Count, options short/long/both/optional-value/require_equals/multi, positionals required/optional/multi/last) x 13 per-argument modifiers (hidden modes, next-line help, custom heading, long help, possible values incl. hidden and non-ASCII names, default, env, visible alias, long text) x 11 command modifiers (next-line help, flatten_help incl. equal display orders, 4 custom templates, subcommand heading, before/after help, hide_possible_values), always with two visible and one hidden subcommand; widths 10 values (quick) / all of 0..=200 for one-argument and 18 values for two-argument configurations (thorough); 6 entry points (render_help, render_long_help, render_usage, errors of -h, --help, viscmd -h). Oracle: no panic/abort/stall, output <1 MiB and no run of >512 spaces, every item visible in that mode listed in its section, hidden subcommand/possible-value/optional-hidden-argument markers absent, subcommand-level help shows that level only.",
         "Trusted: section/marker parsing of the default template in checks/src/bin/c12.rs. Exact layout, ordering and wrapping are not compared. Configurations with three or more arguments are not explored.", "DESIGN.md §4 C12"),
}
PENDING_REASON = "check not built yet in this round (design in DESIGN.md §4); will be claimed when its checker exists"
props = [json.loads(l) for l in open('/verif/properties.jsonl')]
checks = []
na = []
for p in props:
    i = p['id']
    if i in CHECKS:
        tech, text, note, ref = CHECKS[i]
        checks.append({
            "property_id": i,
            "quick_cmd": f"./check {i} quick",
            "thorough_cmd": f"./check {i} thorough",
            "evidence_file": f"/verif/evidence/{i}.json",
            "replay_cmd_template": f"./check {i} --replay {{path}}",
            "engine": "clapmc",
            "level_claimed": {"category": "model_checking", "text": text, "design_ref": ref},
            "level_note": note,
            "technique": tech,
        })
    else:
        na.append({"property_id": i, "reason": PENDING_REASON})
m = {
 "version": 1,
 "setup_cmd": "./setup.sh",
 "hooks": {
   "guard": "--cfg clap_verif",
   "enable": "none needed: every observation goes through clap's public API, so checks build /repo unmodified as a cargo path dependency (no hook commits exist)",
   "baseline_off_cmd": "/verif/tools/suite.sh /repo",
   "source_commits": [],
   "add_only": True,
 },
 "engines": [
   {"name": "clapmc", "path": "/verif/mc", "serves_properties": sorted(CHECKS),
    "kind_free_text": "Rust workspace: exhaustive product/prefix-tree enumeration (E1), explicit-state BFS with canonical-state dedup over real method calls (E2), process-isolating supervisor (E3); reference models in lock-step on every execution"},
 ],
 "checks": checks,
 "not_applicable": na,
 "notes": "Exit 0 held / 1 VIOLATION line + replay file / 2 machinery failure. known_findings.json lists genuine defects (open: reported as KNOWN-FINDING, exit 0; fixed: repaired by a 'fix:' commit in /repo, suppresses nothing).",
}
json.dump(m, open('/verif/MANIFEST.json', 'w'), indent=1)
print("claimed", len(checks), "pending", len(na))
