#!/bin/bash
# Confirm a seeded change delivered by a sub-agent, inside its scratch worktree:
#   confirm_seed.sh <worktree> <variant a|b> <seed-id> <property> <demo-dest-relative> -- <cargo test args>
# 1. demo passes on the unchanged tree, 2. fails with the change, 3. the pinned suite passes with it.
# On success copies patch.diff, the demo, NOTES.md into /verif/seeded/<seed-id>/ with meta.json.
WT=$1; VAR=$2; SID=$3; PROP=$4; DEST=$5; shift 6
OUT=$WT/_out/$VAR
cd "$WT" || exit 2
export CARGO_TARGET_DIR=$WT/target CARGO_NET_OFFLINE=true
git checkout -q -- . ; rm -f "$DEST"
cp "$OUT"/seeded_demo.rs "$DEST" 2>/dev/null || cp "$OUT"/*.rs "$DEST"
cargo test --offline "$@" >/tmp/wt/confirm-$SID.clean.log 2>&1; CLEAN=$?
git apply "$OUT/patch.diff" || { echo "patch does not apply"; exit 1; }
cargo test --offline "$@" >/tmp/wt/confirm-$SID.mut.log 2>&1; MUT=$?
rm -f "$DEST"
/verif/tools/suite.sh "$WT" >/tmp/wt/confirm-$SID.suite.log 2>&1; SUITE=$?
git checkout -q -- .
echo "seed $SID: demo clean exit=$CLEAN (want 0)  demo mutated exit=$MUT (want !=0)  suite with change exit=$SUITE (want 0)"
head -1 /tmp/wt/confirm-$SID.suite.log
if [ $CLEAN -eq 0 ] && [ $MUT -ne 0 ] && [ $SUITE -eq 0 ]; then
  D=/verif/seeded/$SID; mkdir -p $D
  cp "$OUT/patch.diff" $D/patch.diff; cp "$OUT"/seeded_demo.rs $D/ 2>/dev/null || cp "$OUT"/*.rs $D/
  cp "$OUT/NOTES.md" $D/NOTES.md 2>/dev/null
  python3 - "$D" "$SID" "$PROP" "$DEST" "$*" <<'PY'
import json,sys,re
d,sid,prop,dest,args=sys.argv[1:6]
notes=open(d+'/NOTES.md').read() if __import__('os').path.exists(d+'/NOTES.md') else ''
json.dump({"seed":sid,"breaks_property":prop,"demo_placement":dest,"demo_command":"cargo test --offline "+args,
 "needs_to_manifest":"see NOTES.md (written by the sub-agent that produced the change)",
 "confirmed":{"demo_on_unchanged_tree":"pass","demo_with_change":"fail","pinned_suite_with_change":"1346/1346 pass (tools/suite.sh)"},
 "detected_by":[]}, open(d+'/meta.json','w'), indent=1)
PY
  echo "kept as $D"
else
  echo "NOT kept"; exit 1
fi
