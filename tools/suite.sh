#!/bin/bash
# Run the repository's pinned test suite in a checkout (default /repo) with hooks off and compare
# with the baseline list of 1346 stable-pass tests. Usage: suite.sh [dir]
# exit 0 = every baseline test passed; 1 otherwise.
DIR=${1:-/repo}
cd "$DIR" || exit 2
export CARGO_NET_OFFLINE=true
unset RUSTFLAGS
OUT=$(mktemp -d /verif/.work/suite.XXXXXX 2>/dev/null || (mkdir -p /verif/.work && mktemp -d /verif/.work/suite.XXXXXX))
cargo nextest run --workspace --no-fail-fast --tool-config-file pb:/w/lib/nextest.toml --profile pb --test-threads 8 --offline >"$OUT/log" 2>&1
J="$DIR/target/nextest/pb/junit.xml"
[ -n "$CARGO_TARGET_DIR" ] && J="$CARGO_TARGET_DIR/nextest/pb/junit.xml"
python3 - "$J" <<'PY'
import sys, json, xml.etree.ElementTree as ET
base=set(json.load(open('/root/.vp/BASELINE.json'))['stable_pass'])
try:
    root=ET.parse(sys.argv[1]).getroot()
except Exception as e:
    print("suite: cannot read junit:", e); sys.exit(1)
passed=set(); failed=set()
for ts in root.iter('testsuite'):
    for tc in ts.iter('testcase'):
        name=tc.get('classname','')+'::'+tc.get('name','')
        # baseline names look like "<binary>::<test path>"
        ok = tc.find('failure') is None and tc.find('error') is None
        (passed if ok else failed).add(name)
def norm(n): return n
bp=set(); 
names={}
for n in passed: names[n]=True
for n in failed: names[n]=False
hit=0; missing=[]; bad=[]
for b in sorted(base):
    cands=[n for n in names if n==b or n.endswith('::'+b) or b.endswith(n) ]
    if b in names:
        (bad.append(b) if not names[b] else None); hit+= names[b]
    else:
        missing.append(b)
print(f"suite: baseline={len(base)} passed_in_baseline={hit} failed_in_baseline={len(bad)} not_found={len(missing)} total_passed={len(passed)} total_failed={len(failed)}")
for b in bad[:20]: print("  FAILED", b)
for b in missing[:10]: print("  MISSING", b)
sys.exit(0 if (not bad and not missing) else 1)
PY
RC=$?
tail -3 "$OUT/log"
rm -rf "$OUT"
exit $RC
