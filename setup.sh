#!/bin/bash
# Build every checker offline from files on disk (clap is a path dependency on /repo).
set -e
HERE=$(cd "$(dirname "$0")" && pwd)
export CARGO_NET_OFFLINE=true
mkdir -p "$HERE/.work" "$HERE/evidence" "$HERE/replays"
cd "$HERE/mc"
# clap with the checkers' feature set (derive env wrap_help unicode string): packages are built
# one by one so that cargo does not unify features with the default-feature pass below
cargo build --offline -p checks --bins 2>&1 | tail -3
# clap with its default features only (C04 second pass)
cargo build --offline -p checks_default --bins 2>&1 | tail -1
# clap with wrap_help but without color/unicode (C20 third pass)
cargo build --offline -p checks_nocolor --bins 2>&1 | tail -1
