#!/bin/bash
# Build every checker offline from files on disk (clap is a path dependency on /repo).
set -e
HERE=$(cd "$(dirname "$0")" && pwd)
export CARGO_NET_OFFLINE=true
mkdir -p "$HERE/.work" "$HERE/evidence" "$HERE/replays"
cd "$HERE/mc"
cargo build --offline --bins 2>&1 | tail -3
